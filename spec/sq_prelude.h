/* Common prelude of every extracted translation unit (hand-written part; holds no SQuIDS code). */
#ifndef SQ_PRELUDE_H
#define SQ_PRELUDE_H
#include <stddef.h>
#include <stdint.h>
#include <stdbool.h>
#include "SU_inc/dimension.h"      /* taken from /repo by -I: SQUIDS_MAX_HILBERT_DIM etc. */

/* ghost state (DESIGN 3.3) */
int sq_thrown;                      /* 0 none / 1 std::runtime_error / 2 std::bad_alloc */
unsigned gk, gk2;                   /* ghost indices: unconstrained, stand for "for all k" */
unsigned g_eq_wit;                  /* ghost witness index (operator==) */

#define SQ_THROW(...) do{ sq_thrown=1; return SQ_RET; }while(0)
#define SQ_ASSERT(e)  __CPROVER_assert((e), "assert() of the real code")
#define SQ_AXIOM(e)   __CPROVER_assert((e), "SQUIDS_COMPILER_ASSUME axiom must be true")
#define SQ_ISNAN(a)   __CPROVER_isnand(a)
#define SQ_MIN(a,b) ((a)<(b)?(a):(b))
#define SQ_MAX(a,b) ((a)>(b)?(a):(b))
#define SQ_SAME(a,b)  (((a)==(b)) || (SQ_ISNAN(a) && SQ_ISNAN(b)))

double nondet_double(void);
unsigned nondet_unsigned(void);
int nondet_int(void);
_Bool nondet_bool(void);
size_t nondet_size_t(void);
unsigned char nondet_uchar(void);
#endif
