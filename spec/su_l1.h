/* Layer-1 model shared by the SU_vector jobs (hand-written; holds no SQuIDS code):
 * the C image of class SU_vector, ghost state, the representation invariant su_valid (DESIGN 8 C08),
 * and the CONTRACTS (no bodies) of the allocation primitives. */
#ifndef SU_L1_H
#define SU_L1_H
#include "sq_prelude.h"
#include <stdlib.h>

struct SU_vector {            /* members in declaration order of include/SQuIDS/SUNalg.h:145-150 */
  unsigned int dim;
  unsigned int size;
  double* components;
  unsigned char ptr_offset;
  bool isinit;
  bool isinit_d;
};

/* ghost ledger */
int sq_live;                  /* blocks obtained from the allocator / cache and not yet given back */
int sq_alloc_budget;          /* C16: number of allocations that still succeed (negative: unlimited) */
/* ghost block tables, indexed by CBMC's object id of the block (DESIGN 3.3, data abstraction of the hidden alignment offset):
 * sq_blk_off[o]  the alignment offset the allocator recorded for block o (must accompany the block when it is given back)
 * sq_blk_lib[o]  1 iff block o came from the library's allocator (user-supplied buffers: 0) */
unsigned char sq_blk_off[256];
unsigned char sq_blk_lib[256];
#define SQ_OBJ(p) __CPROVER_POINTER_OBJECT(p)

#define SQ_MAXD SQUIDS_MAX_HILBERT_DIM
#define SQ_HEADROOM 3u        /* (32/sizeof(double))-1 */

/* representation invariant, pure part (no pointer predicates) */
#define SU_VALID_PURE(v) ( (v)->size==(v)->dim*(v)->dim && ((v)->dim==0 || (2<=(v)->dim && (v)->dim<=SQ_MAXD)) \
   && !((v)->isinit && (v)->isinit_d) \
   && (((v)->isinit||(v)->isinit_d) ? ((v)->dim>=2) : ((v)->dim==0 && (v)->size==0 && (v)->components==NULL)) )
/* ownership part: an owning vector holds a live library block together with the offset recorded for it.
 * ABSTRACTION: in this model `components` points to the start of the usable block; the real block starts ptr_offset
 * doubles earlier.  alloc_aligned / deallocate_mem are verified against the concrete layout in their own jobs. */
#define SU_OWNS_OK(v) ( !(v)->isinit || ((v)->components!=NULL && __CPROVER_is_freeable((v)->components) \
   && sq_blk_lib[SQ_OBJ((v)->components)]==1 && sq_blk_off[SQ_OBJ((v)->components)]==(v)->ptr_offset && (v)->ptr_offset<=SQ_HEADROOM \
   && __CPROVER_rw_ok((v)->components, (v)->size*sizeof(double))) )
#define SU_EXT_OK(v)  ( !(v)->isinit_d || (v)->components==NULL || (sq_blk_lib[SQ_OBJ((v)->components)]==0 && __CPROVER_rw_ok((v)->components, (v)->size*sizeof(double))) )
#define SU_VALID(v)   ( SU_VALID_PURE(v) && SU_OWNS_OK(v) && SU_EXT_OK(v) )

#define SQ_PROPAGATE        do{ if(sq_thrown) return SQ_RET; }while(0)
#define SQ_LEDGER_OK        (sq_live>=0 && sq_live<1000)

/* static void SU_vector::alloc_aligned(dim,size,components&,ptr_offset&): ABSTRACT CONTRACT.
 * precondition dim<=SQ_MAXD: the real body indexes storage_cache[dim] (array of SQ_MAXD+1 caches). */
void su_alloc_aligned(unsigned dim, unsigned size, double** components, unsigned char* ptr_offset)
__CPROVER_requires(dim<=SQ_MAXD)
__CPROVER_requires(size<=SQUIDS_MAX_HILBERT_SIZE)
__CPROVER_requires(__CPROVER_w_ok(components, sizeof(*components)) && __CPROVER_w_ok(ptr_offset, 1))
__CPROVER_requires(sq_thrown==0 && SQ_LEDGER_OK)
__CPROVER_assigns(*components, *ptr_offset, sq_thrown, sq_live, sq_alloc_budget, __CPROVER_object_whole(sq_blk_off), __CPROVER_object_whole(sq_blk_lib))
__CPROVER_ensures(sq_thrown==0 || sq_thrown==2)
__CPROVER_ensures(sq_thrown==2 ==> (*components==__CPROVER_old(*components) && *ptr_offset==__CPROVER_old(*ptr_offset) && sq_live==__CPROVER_old(sq_live)))
__CPROVER_ensures(sq_thrown==2 ==> __CPROVER_old(sq_alloc_budget)==0)
__CPROVER_ensures(sq_thrown==0 ==> (sq_live==__CPROVER_old(sq_live)+1 && *ptr_offset<=SQ_HEADROOM
                   && __CPROVER_is_fresh(*components, (size>0?size:1)*sizeof(double))
                   && sq_blk_lib[SQ_OBJ(*components)]==1 && sq_blk_off[SQ_OBJ(*components)]==*ptr_offset))
/* the tables of all other blocks are unchanged: stated for the two ghost probes */
__CPROVER_ensures(sq_thrown!=0 || SQ_OBJ(*components)==gk%256 || (sq_blk_lib[gk%256]==__CPROVER_old(sq_blk_lib[gk%256]) && sq_blk_off[gk%256]==__CPROVER_old(sq_blk_off[gk%256])))
__CPROVER_ensures(sq_thrown!=0 || SQ_OBJ(*components)==gk2%256 || (sq_blk_lib[gk2%256]==__CPROVER_old(sq_blk_lib[gk2%256]) && sq_blk_off[gk2%256]==__CPROVER_old(sq_blk_off[gk2%256])))
__CPROVER_ensures(sq_thrown==0 || (sq_blk_lib[gk%256]==__CPROVER_old(sq_blk_lib[gk%256]) && sq_blk_off[gk%256]==__CPROVER_old(sq_blk_off[gk%256])))
;
/* void SU_vector::deallocate_mem(): ABSTRACT CONTRACT: gives the block back (to the cache or to delete[]); the offset handed
 * back with it must be the one recorded for the block, the block must be a live library block.
 * `blk` is a ghost argument equal to self->components (CBMC's frees clause accepts no member access through arithmetic). */
void su_deallocate_mem(struct SU_vector* self, double* blk)
__CPROVER_requires(__CPROVER_r_ok(self, sizeof(*self)))
__CPROVER_requires(self->dim<=SQ_MAXD)
__CPROVER_requires(blk==self->components && blk!=NULL && __CPROVER_is_freeable(blk))
__CPROVER_requires(sq_blk_lib[SQ_OBJ(blk)]==1 && sq_blk_off[SQ_OBJ(blk)]==self->ptr_offset)
__CPROVER_requires(sq_live>0 && sq_live<1000)
__CPROVER_assigns(sq_live)
__CPROVER_frees(blk)
__CPROVER_ensures(sq_live==__CPROVER_old(sq_live)-1)
;
/* operator new[] (double): CONTRACT */
double* sq_new_double(size_t n)
__CPROVER_requires(sq_thrown==0 && n<=1024 && SQ_LEDGER_OK)
__CPROVER_assigns(sq_thrown, sq_live, sq_alloc_budget, __CPROVER_object_whole(sq_blk_off), __CPROVER_object_whole(sq_blk_lib))
__CPROVER_ensures(sq_thrown==0 || sq_thrown==2)
__CPROVER_ensures(sq_thrown==2 ==> (__CPROVER_return_value==NULL && sq_live==__CPROVER_old(sq_live) && __CPROVER_old(sq_alloc_budget)==0))
__CPROVER_ensures(sq_thrown==0 ==> (sq_live==__CPROVER_old(sq_live)+1 && __CPROVER_is_fresh(__CPROVER_return_value, (n>0?n:1)*sizeof(double))
                   && sq_blk_lib[SQ_OBJ(__CPROVER_return_value)]==1 && sq_blk_off[SQ_OBJ(__CPROVER_return_value)]==0))
__CPROVER_ensures(sq_thrown!=0 || SQ_OBJ(__CPROVER_return_value)==gk%256 || (sq_blk_lib[gk%256]==__CPROVER_old(sq_blk_lib[gk%256]) && sq_blk_off[gk%256]==__CPROVER_old(sq_blk_off[gk%256])))
__CPROVER_ensures(sq_thrown==0 || (sq_blk_lib[gk%256]==__CPROVER_old(sq_blk_lib[gk%256]) && sq_blk_off[gk%256]==__CPROVER_old(sq_blk_off[gk%256])))
;
/* operator delete[]: CONTRACT */
void sq_delete(double* p)
__CPROVER_requires(p!=NULL && __CPROVER_is_freeable(p) && sq_blk_lib[SQ_OBJ(p)]==1 && sq_live>0 && sq_live<1000)
__CPROVER_assigns(sq_live)
__CPROVER_frees(p)
__CPROVER_ensures(sq_live==__CPROVER_old(sq_live)-1)
;

/* std::fill / std::copy on double ranges: ASSUMED contracts (libstdc++), ghost-index form; std::swap by its definition */
void sq_fill(double* b, double* e, double v)
__CPROVER_requires(__CPROVER_same_object(b,e) && b<=e && __CPROVER_w_ok(b, (size_t)(e-b)*sizeof(double)))
__CPROVER_assigns(__CPROVER_object_from(b))
__CPROVER_ensures(gk<(size_t)(e-b) ==> SQ_SAME(b[gk], v))
__CPROVER_ensures(gk2<(size_t)(e-b) ==> SQ_SAME(b[gk2], v))
;
void sq_copy(const double* b, const double* e, double* d)
__CPROVER_requires(__CPROVER_same_object(b,e) && b<=e && __CPROVER_r_ok(b, (size_t)(e-b)*sizeof(double)) && __CPROVER_w_ok(d, (size_t)(e-b)*sizeof(double)))
__CPROVER_requires(!__CPROVER_same_object(b,d) || d<=b || d>=e)          /* std::copy: d not inside [b,e) */
__CPROVER_assigns(__CPROVER_object_upto(d, (size_t)(e-b)*sizeof(double)))
__CPROVER_ensures(gk<(size_t)(e-b) ==> SQ_SAME(d[gk], __CPROVER_old(b[gk<(size_t)(e-b)?gk:0])))
;
#define SQ_FILL(b,e,v) sq_fill((b),(e),(v))
#define SQ_COPY(b,e,d) sq_copy((b),(e),(d))
#define SQ_SWAP(a,b)   do{ __typeof__(a) t_=(a); (a)=(b); (b)=t_; }while(0)

/* harness helper: an arbitrary vector satisfying the invariant (kind 0 empty / 1 owning / 2 externally backed) */
static inline void sq_mk_valid(struct SU_vector* v, int kind, unsigned dim){
  __CPROVER_assume(2<=dim && dim<=SQ_MAXD);
  v->ptr_offset=nondet_uchar();
  if(kind==0){ v->dim=0; v->size=0; v->components=NULL; v->isinit=false; v->isinit_d=false; }
  else{
    v->dim=dim; v->size=dim*dim;
    double* b=malloc(dim*dim*sizeof(double)); __CPROVER_assume(b!=NULL);
    v->components=b;
    if(kind==1){ __CPROVER_assume(v->ptr_offset<=SQ_HEADROOM); sq_blk_lib[SQ_OBJ(b)]=1; sq_blk_off[SQ_OBJ(b)]=v->ptr_offset; v->isinit=true; v->isinit_d=false; sq_live++; }
    else       { sq_blk_lib[SQ_OBJ(b)]=0; v->isinit=false; v->isinit_d=true; }
  }
}
#endif
