/* Layer-1 model shared by the SU_vector jobs (hand-written; holds no SQuIDS code):
 * the C image of class SU_vector, ghost state, the representation invariant su_valid (DESIGN 8 C08),
 * and the CONTRACTS (no bodies) of the allocation primitives. */
#ifndef SU_L1_H
#define SU_L1_H
#include "sq_prelude.h"
#include <stdlib.h>

struct SU_vector {            /* members in declaration order of include/SQuIDS/SUNalg.h:145-150 */
  unsigned int dim;
  unsigned int size;
  double* components;
  unsigned char ptr_offset;
  bool isinit;
  bool isinit_d;
};

/* ghost ledger */
int sq_live;                  /* blocks obtained from the allocator / cache and not yet given back */
int sq_alloc_budget;          /* C16: number of allocations that still succeed (negative: unlimited) */
/* ghost block tables, indexed by CBMC's object id of the block (DESIGN 3.3, data abstraction of the hidden alignment offset):
 * sq_blk_off[o]  the alignment offset the allocator recorded for block o (must accompany the block when it is given back)
 * sq_blk_lib[o]  1 iff block o came from the library's allocator (user-supplied buffers: 0)
 * The tables are immutable attributes of a block: no contract assigns them; an allocation contract *assumes* the attribute
 * values of the fresh block (its object id is new, so no earlier constraint mentions that entry); harnesses set them for
 * the blocks they create.  Giving a block back is modelled by `frees` (the object dies, is_freeable becomes false). */
unsigned char sq_blk_off[1024];   /* jobs run with --object-bits 10 */
unsigned char sq_blk_lib[1024];
#define SQ_OBJ(p) __CPROVER_POINTER_OBJECT(p)

#define SQ_MAXD SQUIDS_MAX_HILBERT_DIM
#define SQ_HEADROOM 3u        /* (32/sizeof(double))-1 */

/* representation invariant, pure part (no pointer predicates) */
#define SU_VALID_PURE(v) ( (v)->size==(v)->dim*(v)->dim && ((v)->dim==0 || (2<=(v)->dim && (v)->dim<=SQ_MAXD)) \
   && !((v)->isinit && (v)->isinit_d) \
   && (((v)->isinit||(v)->isinit_d) ? ((v)->dim>=2 || ((v)->isinit && (v)->dim==0)) : ((v)->dim==0 && (v)->size==0)) )   /* empty means empty (a copy of an empty vector leaves `components` indeterminate); assigning an empty vector to an owning one leaves an owning vector of dimension 0 */
/* ownership part: an owning vector holds a live library block together with the offset recorded for it.
 * ABSTRACTION: in this model `components` points to the start of the usable block; the real block starts ptr_offset
 * doubles earlier.  alloc_aligned / deallocate_mem are verified against the concrete layout in their own jobs. */
#define SU_OWNS_OK(v) ( !(v)->isinit || ((v)->components!=NULL && __CPROVER_is_freeable((v)->components) \
   && sq_blk_lib[SQ_OBJ((v)->components)]==1 && sq_blk_off[SQ_OBJ((v)->components)]==(v)->ptr_offset && (v)->ptr_offset<=SQ_HEADROOM \
   && __CPROVER_rw_ok((v)->components, (v)->size*sizeof(double))) )
#define SU_EXT_OK(v)  ( !(v)->isinit_d || (v)->components==NULL || (sq_blk_lib[SQ_OBJ((v)->components)]==0 && __CPROVER_rw_ok((v)->components, (v)->size*sizeof(double))) )
#define SU_VALID(v)   ( SU_VALID_PURE(v) && SU_OWNS_OK(v) && SU_EXT_OK(v) )

#define ALLOC_FRAME sq_thrown, sq_live, sq_alloc_budget
#define SQ_PROPAGATE        do{ if(sq_thrown) return SQ_RET; }while(0)
#define SQ_PROPAGATE_INIT   SQ_PROPAGATE   /* exception thrown by an initialiser (operator new[]) aborts the construction */
#define SQ_LEDGER_OK        (sq_live>=0 && sq_live<1000)

/* static void SU_vector::alloc_aligned(dim,size,components&,ptr_offset&): ABSTRACT CONTRACT.
 * precondition dim<=SQ_MAXD: the real body indexes storage_cache[dim] (array of SQ_MAXD+1 caches). */
void su_alloc_aligned(unsigned dim, unsigned size, double** components, unsigned char* ptr_offset)
__CPROVER_requires(dim<=SQ_MAXD)
__CPROVER_requires(size<=SQUIDS_MAX_HILBERT_SIZE)
__CPROVER_requires(__CPROVER_w_ok(components, sizeof(*components)) && __CPROVER_w_ok(ptr_offset, 1))
__CPROVER_requires(sq_thrown==0 && SQ_LEDGER_OK)
__CPROVER_assigns(*components, *ptr_offset, sq_thrown, sq_live, sq_alloc_budget)
__CPROVER_ensures(sq_thrown==0 || sq_thrown==2)
__CPROVER_ensures(sq_thrown==2 ==> (*components==__CPROVER_old(*components) && *ptr_offset==__CPROVER_old(*ptr_offset) && sq_live==__CPROVER_old(sq_live)))
__CPROVER_ensures(sq_thrown==2 ==> __CPROVER_old(sq_alloc_budget)==0)
__CPROVER_ensures(sq_thrown==0 ==> (sq_live==__CPROVER_old(sq_live)+1 && *ptr_offset<=SQ_HEADROOM
                   && __CPROVER_is_fresh(*components, (size>0?size:1)*sizeof(double))
                   && sq_blk_lib[SQ_OBJ(*components)]==1 && sq_blk_off[SQ_OBJ(*components)]==*ptr_offset))
;
/* void SU_vector::deallocate_mem(): ABSTRACT CONTRACT: gives the block back (to the cache or to delete[]); the offset handed
 * back with it must be the one recorded for the block, the block must be a live library block.
 * `blk` is a ghost argument equal to self->components (CBMC's frees clause accepts no member access through arithmetic). */
void su_deallocate_mem(struct SU_vector* self, double* blk)
__CPROVER_requires(__CPROVER_r_ok(self, sizeof(*self)))
__CPROVER_requires(self->dim<=SQ_MAXD)
__CPROVER_requires(blk==self->components && blk!=NULL && __CPROVER_is_freeable(blk))
__CPROVER_requires(sq_blk_lib[SQ_OBJ(blk)]==1 && sq_blk_off[SQ_OBJ(blk)]==self->ptr_offset)
__CPROVER_requires(sq_live>0 && sq_live<1000)
__CPROVER_assigns(sq_live)
__CPROVER_frees(blk)
__CPROVER_ensures(sq_live==__CPROVER_old(sq_live)-1)
;
/* operator new[] (double): CONTRACT, result through *out (`p = new double[n]`) */
void sq_new_double_o(size_t n, double** out)
__CPROVER_requires(sq_thrown==0 && n<=1024 && SQ_LEDGER_OK && __CPROVER_w_ok(out, sizeof(*out)))
__CPROVER_assigns(*out, sq_thrown, sq_live, sq_alloc_budget)
__CPROVER_ensures(sq_thrown==0 || sq_thrown==2)
__CPROVER_ensures(sq_thrown==2 ==> (sq_live==__CPROVER_old(sq_live) && __CPROVER_old(sq_alloc_budget)==0))
__CPROVER_ensures(sq_thrown==0 ==> (sq_live==__CPROVER_old(sq_live)+1 && __CPROVER_is_fresh(*out, (n>0?n:1)*sizeof(double))
                   && sq_blk_lib[SQ_OBJ(*out)]==1 && sq_blk_off[SQ_OBJ(*out)]==0))
;
/* operator delete[]: CONTRACT */
void sq_delete(double* p)
__CPROVER_requires(p!=NULL && __CPROVER_is_freeable(p) && sq_blk_lib[SQ_OBJ(p)]==1 && sq_live>0 && sq_live<1000)
__CPROVER_assigns(sq_live)
__CPROVER_frees(p)
__CPROVER_ensures(sq_live==__CPROVER_old(sq_live)-1)
;

/* std::fill(p,p+n,v) / std::copy(p,p+n,d) on double ranges: ASSUMED contracts (libstdc++), ghost-index form.  The extraction rule turns the
 * iterator pair (p,p+n) into (p,n): an empty range of null pointers is legal C++ and must not be charged with pointer arithmetic on NULL. */
void sq_filln(double* b, size_t n, double v)
__CPROVER_requires(n==0 || __CPROVER_w_ok(b, n*sizeof(double)))
__CPROVER_assigns(__CPROVER_object_upto(b, n*sizeof(double)))
__CPROVER_ensures(gk<n ==> SQ_SAME(b[gk], v))
__CPROVER_ensures(gk2<n ==> SQ_SAME(b[gk2], v))
;
void sq_copyn(const double* b, size_t n, double* d)
__CPROVER_requires(n==0 || (__CPROVER_r_ok(b, n*sizeof(double)) && __CPROVER_w_ok(d, n*sizeof(double))))
__CPROVER_requires(n==0 || !__CPROVER_same_object(b,d) || d==b)          /* disjoint objects, or a range copied onto itself (benign) */
__CPROVER_assigns(d!=b: __CPROVER_object_upto(d, n*sizeof(double)))     /* copying a range onto itself changes nothing */
__CPROVER_ensures(gk<n ==> SQ_SAME(d[gk], b[gk]))
;
#define SQ_SWAP(a,b)   do{ __typeof__(a) t_=(a); (a)=(b); (b)=t_; }while(0)

/* ---- contracts shared between the job that enforces them (suv_l1.c) and the jobs that use them as callee contracts (proxy_l1.c) ---- */
/* SU_vector& operator=(const SU_vector& other).  Constructive form (usable as a callee contract: every pointer the caller may use
 * afterwards is either unchanged -- not in the frame -- or delivered by is_fresh). */
#define SU_ASSIGN_COPY_CONTRACT \
__CPROVER_requires(__CPROVER_rw_ok(self, sizeof(*self)) && __CPROVER_r_ok(other, sizeof(*other)) && SU_VALID(self) && SU_VALID(other)) \
__CPROVER_requires(sq_thrown==0 && SQ_LEDGER_OK && (self->isinit ==> sq_live>0)) \
__CPROVER_assigns(ALLOC_FRAME, __CPROVER_object_upto(self->components, self->size*sizeof(double)); \
                  self!=other && self->size!=other->size && !self->isinit_d: *self) \
__CPROVER_frees(self!=other && self->isinit && self->size!=other->size: self->components) \
__CPROVER_ensures(sq_thrown==0 || sq_thrown==1 || sq_thrown==2) \
__CPROVER_ensures((sq_thrown==1) == (self!=other && self->isinit_d && self->size!=other->size)) \
__CPROVER_ensures(sq_thrown==1 ==> sq_live==__CPROVER_old(sq_live)) \
__CPROVER_ensures((self==other || __CPROVER_old(self->size)==other->size) ==> (sq_thrown==0 && sq_live==__CPROVER_old(sq_live))) \
__CPROVER_ensures(sq_thrown==0 && self!=other && __CPROVER_old(self->size)!=other->size ==> (self->dim==other->dim && self->size==other->size \
                   && self->isinit && !self->isinit_d && self->ptr_offset<=SQ_HEADROOM \
                   && __CPROVER_is_fresh(self->components, (other->size>0?other->size:1)*sizeof(double)) \
                   && sq_blk_lib[SQ_OBJ(self->components)]==1 && sq_blk_off[SQ_OBJ(self->components)]==self->ptr_offset \
                   && sq_live==__CPROVER_old(sq_live)+(__CPROVER_old(self->isinit)?0:1))) \
__CPROVER_ensures(sq_thrown==2 ==> (!self->isinit && !self->isinit_d && self->dim==0 && self->size==0 \
                   && sq_live==__CPROVER_old(sq_live)-(__CPROVER_old(self->isinit)?1:0))) \
__CPROVER_ensures(sq_thrown==0 && self!=other && self->size>0 && gk<self->size ==> SQ_SAME(self->components[gk], other->components[gk]))
#define SU_CTOR_SIZED_CONTRACT \
__CPROVER_requires(__CPROVER_w_ok(self, sizeof(*self)) && sq_thrown==0 && SQ_LEDGER_OK) \
__CPROVER_assigns(*self, ALLOC_FRAME) \
__CPROVER_ensures(sq_thrown==0 || sq_thrown==1 || sq_thrown==2) \
__CPROVER_ensures(sq_thrown!=2 ==> ((sq_thrown==1) == (d==1 || d>SQ_MAXD))) \
__CPROVER_ensures(sq_thrown!=0 ==> sq_live==__CPROVER_old(sq_live)) \
__CPROVER_ensures(sq_thrown==0 ==> (self->dim==d && self->size==d*d && self->isinit && !self->isinit_d && sq_live==__CPROVER_old(sq_live)+1 && self->ptr_offset<=SQ_HEADROOM \
                   && __CPROVER_is_fresh(self->components, (d*d>0?d*d:1)*sizeof(double)) \
                   && sq_blk_lib[SQ_OBJ(self->components)]==1 && sq_blk_off[SQ_OBJ(self->components)]==self->ptr_offset)) \
__CPROVER_ensures(sq_thrown==0 && gk<d*d ==> self->components[gk]==0.0)
#define SU_DTOR_CONTRACT \
__CPROVER_requires(__CPROVER_r_ok(self, sizeof(*self)) && SU_VALID(self) && SQ_LEDGER_OK && (self->isinit ==> sq_live>0)) \
__CPROVER_assigns(sq_live) \
__CPROVER_frees(self->isinit: self->components) \
__CPROVER_ensures(sq_live==__CPROVER_old(sq_live)-(self->isinit?1:0))

/* harness helper: an arbitrary vector satisfying the invariant (kind 0 empty / 1 owning / 2 externally backed) */
static inline void sq_mk_valid(struct SU_vector* v, int kind, unsigned dim){
  __CPROVER_assume(2<=dim && dim<=SQ_MAXD);
  v->ptr_offset=nondet_uchar();
  if(kind==0){ v->dim=0; v->size=0; v->components=NULL; v->isinit=false; v->isinit_d=false; }
  else{
    v->dim=dim; v->size=dim*dim;
    double* b=malloc(dim*dim*sizeof(double)); __CPROVER_assume(b!=NULL);
    v->components=b;
    if(kind==1){ __CPROVER_assume(v->ptr_offset<=SQ_HEADROOM); sq_blk_lib[SQ_OBJ(b)]=1; sq_blk_off[SQ_OBJ(b)]=v->ptr_offset; v->isinit=true; v->isinit_d=false; sq_live++; }
    else       { sq_blk_lib[SQ_OBJ(b)]=0; v->isinit=false; v->isinit_d=true; }
  }
}
#endif
