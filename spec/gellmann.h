/* Independent specification (hand-written from the property text, holds no SQuIDS code):
 * the generalised Gell-Mann basis with Tr(lambda_a lambda_b) = 2 delta_ab and the component layout
 *   c[0]            identity
 *   c[D*i+j], i<j   symmetric generator   S_ij = E_ij + E_ji
 *   c[D*j+i], i<j   antisymmetric gen.    A_ij = -i E_ij + i E_ji
 *   c[D*k+k], k>=1  diagonal generator    D_k = sqrt(2/(k(k+1))) diag(1,..,1 (k times), -k, 0,..)
 * M(c) = c0*I + sum_k c_k lambda_k.   R is `double` (Layer 2 treats it as a real).  D is a macro. */
#ifndef GELLMANN_H
#define GELLMANN_H
#define NN (D*D)
struct mat { R re[D][D], im[D][D]; };

static R diagnorm(int k){ /* sqrt(2/(k(k+1))) as a product of the symbols S2,S3,S5 */
  switch(k){ case 1: return 1; case 2: return S3/3; case 3: return S2*S3/6; case 4: return S2*S5/10; case 5: return S3*S5/15; }
  return 0;
}
static struct mat toMatrix(const R* c){
  struct mat m;
  for(int i=0;i<D;i++) for(int j=0;j<D;j++){ m.re[i][j]=0; m.im[i][j]=0; }
  for(int i=0;i<D;i++) m.re[i][i]=c[0];
  for(int i=0;i<D;i++) for(int j=i+1;j<D;j++){
    m.re[i][j]=c[D*i+j];  m.re[j][i]=c[D*i+j];
    m.im[i][j]=-c[D*j+i]; m.im[j][i]=c[D*j+i];
  }
  for(int k=1;k<D;k++){
    R x=c[D*k+k]*diagnorm(k);
    for(int i=0;i<k;i++) m.re[i][i]+=x;
    m.re[k][k]+=-k*x;
  }
  return m;
}
/* Phi(M): c0 = Tr M / D, c_k = Tr(M lambda_k)/2  (inverse of toMatrix on Hermitian matrices) */
static void fromMatrix(const struct mat* m, R* c){
  for(int k=0;k<NN;k++) c[k]=0;
  R tr=0; for(int i=0;i<D;i++) tr+=m->re[i][i];
  c[0]=tr/D;
  for(int i=0;i<D;i++) for(int j=i+1;j<D;j++){
    /* Tr(M S_ij)/2 = (M_ji + M_ij)/2 ;  Tr(M A_ij)/2 = (-i M_ji + i M_ij)/2 */
    c[D*i+j]=(m->re[i][j]+m->re[j][i])/2;
    c[D*j+i]=(m->im[j][i]-m->im[i][j])/2;
  }
  for(int k=1;k<D;k++){
    R s=0; for(int i=0;i<k;i++) s+=m->re[i][i];
    s+=-k*m->re[k][k];
    c[D*k+k]=s*diagnorm(k)/2;
  }
}
static struct mat mmul(const struct mat* a, const struct mat* b){
  struct mat r;
  for(int i=0;i<D;i++) for(int j=0;j<D;j++){
    R xr=0, xi=0;
    for(int k=0;k<D;k++){ xr+=a->re[i][k]*b->re[k][j]-a->im[i][k]*b->im[k][j]; xi+=a->re[i][k]*b->im[k][j]+a->im[i][k]*b->re[k][j]; }
    r.re[i][j]=xr; r.im[i][j]=xi;
  }
  return r;
}
static struct mat mdagger(const struct mat* a){
  struct mat r;
  for(int i=0;i<D;i++) for(int j=0;j<D;j++){ r.re[i][j]=a->re[j][i]; r.im[i][j]=-a->im[j][i]; }
  return r;
}
#define MAT_ASSERT_EQ(A,B,tag) do{ for(int i_=0;i_<D;i_++) for(int j_=0;j_<D;j_++){ \
   __CPROVER_assert((A).re[i_][j_]==(B).re[i_][j_], tag ".re"); __CPROVER_assert((A).im[i_][j_]==(B).im[i_][j_], tag ".im"); } }while(0)
#endif
