/* GSL complex-matrix accessors with their documented bodies (gsl_matrix_complex.h), over R. */
#ifndef L2_GSL_H
#define L2_GSL_H
typedef struct { R dat[2]; } gsl_complex;
typedef struct { size_t size1, size2, tda; R* data; } gsl_matrix_complex;
static inline void gsl_matrix_complex_set(gsl_matrix_complex* m, size_t i, size_t j, gsl_complex x){
  m->data[2*(i*m->tda+j)]=x.dat[0]; m->data[2*(i*m->tda+j)+1]=x.dat[1]; }
static inline gsl_complex gsl_matrix_complex_get(const gsl_matrix_complex* m, size_t i, size_t j){
  gsl_complex z; z.dat[0]=m->data[2*(i*m->tda+j)]; z.dat[1]=m->data[2*(i*m->tda+j)+1]; return z; }
#define GSL_REAL(z) ((z).dat[0])
#define GSL_IMAG(z) ((z).dat[1])
#endif
