/* Layer-2 prelude: R is double for CBMC's symbolic execution; the theory swap turns it into Real. */
#ifndef L2_PRELUDE_H
#define L2_PRELUDE_H
#include <stddef.h>
typedef double R;
R nondet_R(void);
R S2,S3,S5;     /* sqrt(2), sqrt(3), sqrt(5): positive algebraic symbols, constrained in L2_SYMBOLS() */
R __CPROVER_uninterpreted_sin(R);
R __CPROVER_uninterpreted_cos(R);
#define sin(x) __CPROVER_uninterpreted_sin(x)
#define cos(x) __CPROVER_uninterpreted_cos(x)
#define fabs(x) __CPROVER_fabs(x)
#define L2_SYMBOLS() do{ S2=nondet_R();S3=nondet_R();S5=nondet_R(); \
   __CPROVER_assume(S2*S2==2.0 && S2>0); __CPROVER_assume(S3*S3==3.0 && S3>0); __CPROVER_assume(S5*S5==5.0 && S5>0); }while(0)
#endif
