#!/usr/bin/env python3
"""Prints the markdown table of DESIGN.md section 0.6 from seeded/RESULTS.json and the seeds' meta.json."""
import json, os
V = os.path.dirname(os.path.dirname(os.path.abspath(__file__)))
R = json.load(open(os.path.join(V, "seeded", "RESULTS.json")))
print("| seed | change (one line) | checks run -> exit | first failing obligation |")
print("|------|-------------------|--------------------|--------------------------|")
for n in sorted(R):
    e = R[n]
    try:
        m = json.load(open(os.path.join(V, "seeded", n, "meta.json")))
        summ = m.get("summary", "").split(". ")[0].replace("|", "/").replace("\n", " ")[:150]
    except Exception:
        summ = "?"
    if "error" in e:
        print("| %s | %s | %s | |" % (n, summ, e["error"])); continue
    runs = ", ".join("%s -> %s" % (p, c.get("rc")) for p, c in e["checks"].items())
    first = ""
    for p, c in e["checks"].items():
        if c.get("rc") == 1 and c.get("violations"):
            first = c["violations"][0].replace(" no-failing-input-found", " (no replayed input)"); break
    print("| %s | %s | %s | %s |" % (n, summ, runs, first))
det = [n for n, e in R.items() if any(c.get("rc") == 1 for c in e.get("checks", {}).values())]
own = [n for n, e in R.items() if e.get("checks", {}).get(n[:3], {}).get("rc") == 1]
print()
print("%d seeds; %d detected by at least one check (exit 1 with a named obligation), %d by the check of the property they were written against." % (len(R), len(det), len(own)))
