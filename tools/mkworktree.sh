#!/bin/sh
# usage: mkworktree.sh <dir>   -- scratch git worktree of /repo HEAD incl. the configure-generated files needed to build
set -e
d="$1"
git -C /repo worktree add --detach "$d" HEAD >/dev/null 2>&1
cp /repo/settings.mk "$d/settings.mk"
cp /repo/Makefile "$d/Makefile"
cp /repo/include/SQuIDS/version.h "$d/include/SQuIDS/version.h"
cp /repo/test/env_vars.sh "$d/test/env_vars.sh"
mkdir -p "$d/lib"
cp /repo/lib/squids.pc "$d/lib/" 2>/dev/null || true
echo "$d"
