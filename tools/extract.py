"""Mechanical extraction of /repo's C++ into C translation units (DESIGN.md 2).

A *template* (contracts/*.c) holds what is written by hand: C prelude, C signatures,
contract clauses and harnesses.  It holds no function bodies: these are pulled from
/repo's current working tree on every run by directives

  //@BODY file=<repo path> sig=<regex on the C++ signature> rules=<set>[,<set>...] [nth=<k>] [part=init|body|all]
  //@LOOP <ordinal> <clauses...>          (attached to the BODY directive just before it)
  //@KERNEL file=<SU_inc file> [rules=...]
  //@SUB /regex/replacement/ [min=<n>]    (extra must-fire rule for the BODY just before it)

Every rule is must-fire: a rule that is expected to fire and fires 0 times, an unmatched
brace or an unknown construct raises ExtractionError => the check exits 2, never 1.
"""
import os
import re

from core import REPO, ExtractionError, repo_read


# ---------------------------------------------------------------------------------------
def strip_comments(s):
    """Replace comments by blanks (newlines kept so that line numbers survive)."""
    out = []
    i, n = 0, len(s)
    while i < n:
        c = s[i]
        if c == '/' and i + 1 < n and s[i + 1] == '/':
            j = s.find('\n', i)
            j = n if j < 0 else j
            out.append(' ' * (j - i))
            i = j
        elif c == '/' and i + 1 < n and s[i + 1] == '*':
            j = s.find('*/', i + 2)
            if j < 0:
                raise ExtractionError("unterminated comment")
            out.append(re.sub(r'[^\n]', ' ', s[i:j + 2]))
            i = j + 2
        elif c == '"':
            j = i + 1
            while j < n and s[j] != '"':
                j += 2 if s[j] == '\\' else 1
            out.append(s[i:j + 1])
            i = j + 1
        elif c == "'":
            j = i + 1
            while j < n and s[j] != "'":
                j += 2 if s[j] == '\\' else 1
            out.append(s[i:j + 1])
            i = j + 1
        else:
            out.append(c)
            i += 1
    return ''.join(out)


def match_close(s, i, o='{', c='}'):
    """s[i]==o; returns index of the matching closer (strings skipped)."""
    assert s[i] == o, (s[i:i + 20], o)
    depth, n = 0, len(s)
    while i < n:
        ch = s[i]
        if ch == '"':
            i += 1
            while i < n and s[i] != '"':
                i += 2 if s[i] == '\\' else 1
        elif ch == "'":
            i += 1
            while i < n and s[i] != "'":
                i += 2 if s[i] == '\\' else 1
        elif ch == o:
            depth += 1
        elif ch == c:
            depth -= 1
            if depth == 0:
                return i
        i += 1
    raise ExtractionError("unmatched %s" % o)


class Cut:
    def __init__(self, file, line, sig, init, body):
        self.file, self.line, self.sig, self.init, self.body = file, line, sig, init, body


def cut_function(rel, sig_regex, nth=0):
    """Cut a function definition out of a repo file: the regex must match the start of the
    signature; the parameter list is matched by parentheses, an optional constructor
    initialiser list is returned separately, the body by brace matching."""
    src = strip_comments(repo_read(rel))
    ms = list(re.finditer(sig_regex, src))
    # keep only matches that are followed by a definition
    defs = []
    for m in ms:
        i = src.find('(', m.start())
        if i < 0:
            continue
        try:
            j = match_close(src, i, '(', ')')
        except ExtractionError:
            continue
        k = j + 1
        # qualifiers
        mm = re.compile(r'\s*(const|noexcept|override|&&|&)*\s*').match(src, k)
        k = mm.end()
        while True:
            mm = re.compile(r'\s*(const|noexcept|override|&&|&)\s*').match(src, k)
            if not mm or mm.end() == k:
                break
            k = mm.end()
        init = ''
        if k < len(src) and src[k] == ':' and src[k:k + 2] != '::':
            # initialiser list: runs to the first '{' at paren depth 0 that follows a ')' or '}'
            p = k + 1
            depth = 0
            while p < len(src):
                ch = src[p]
                if ch == '(':
                    depth += 1
                elif ch == ')':
                    depth -= 1
                elif ch == '{' and depth == 0:
                    # brace-init of a member (x{..}) is preceded by an identifier char
                    q = p - 1
                    while q > k and src[q].isspace():
                        q -= 1
                    if src[q] == ')' or src[q] == '}':
                        break
                    p = match_close(src, p)
                p += 1
            init = src[k + 1:p]
            k = p
        if k >= len(src) or src[k] != '{':
            continue
        e = match_close(src, k)
        defs.append((m, i, j, k, e, init))
    if len(defs) <= nth:
        raise ExtractionError("signature /%s/ (definition #%d) not found in %s" % (sig_regex, nth, rel))
    m, i, j, k, e, init = defs[nth]
    line = src.count('\n', 0, m.start()) + 1
    return Cut(rel, line, src[m.start():j + 1], init, src[k + 1:e])


# ---------------------------------------------------------------------------------------
class Rule:
    def __init__(self, name, pat, repl, min=0, flags=0):
        self.name, self.pat, self.repl, self.min = name, re.compile(pat, flags), repl, min


def apply_rules(text, rules, fired, ctx=""):
    for r in rules:
        text, n = r.pat.subn(r.repl, text)
        if n < r.min:
            raise ExtractionError("rule %s fired %d < %d times in %s" % (r.name, n, r.min, ctx))
        if n:
            fired[r.name] = fired.get(r.name, 0) + n
    return text


def members_rule(prefix, names, self_expr="self->"):
    """bare member names -> self->name (not after '.', '->' or '::' and not when declared as a local)."""
    pat = r'(?<![\w.>:])(?<!\.\s)(' + '|'.join(names) + r')\b(?!\s*\()'
    return Rule(prefix + ".members", pat, lambda m: self_expr + m.group(1))


SUV_MEMBERS = ["dim", "size", "components", "ptr_offset", "isinit_d", "isinit"]

COMMON = [
    Rule("nullptr", r'\bnullptr\b', 'NULL'),
    Rule("static_cast", r'\bstatic_cast<\s*([^<>]+?)\s*>\s*\(', r'(\1)('),
    Rule("throw.runtime_error", r'throw\s+std::runtime_error\s*\(', 'SQ_THROW('),
    # std::copy(p,p+n,d) / std::fill(p,p+n,v): iterator pair (p,p+n) -> (p,n)
    Rule("std.copy", r'\bstd::copy\s*\(\s*([\w.>-]+)\s*,\s*\1\s*\+\s*([\w.>-]+)\s*,\s*([\w.>-]+)\s*\)', r'sq_copyn(\1,\2,\3)'),
    Rule("std.fill", r'\bstd::fill\s*\(\s*([\w.>-]+)\s*,\s*\1\s*\+\s*([\w.>-]+)\s*,\s*([\w.>-]+)\s*\)', r'sq_filln(\1,\2,\3)'),
    Rule("std.copy.other", r'\bstd::copy\s*\(', 'SQ_COPY_UNSUPPORTED('),
    Rule("std.fill.other", r'\bstd::fill\s*\(', 'SQ_FILL_UNSUPPORTED('),
    Rule("std.swap", r'\bstd::swap\s*\(', 'SQ_SWAP('),
    Rule("std.abs", r'\bstd::abs\s*\(', 'fabs('),
    Rule("assert", r'(?<![\w_])assert\s*\(', 'SQ_ASSERT('),
    Rule("compiler_assume", r'\bSQUIDS_COMPILER_ASSUME\s*\(', 'SQ_AXIOM('),
    Rule("bool.and", r'\band\b', '&&'),
    Rule("bool.or", r'\bor\b', '||'),
    Rule("bool.not", r'\bnot\b', '!'),
    Rule("string.concat", r'"\s+SQUIDS_MAX_HILBERT_DIM_STR\s+"', ''),
]

# a method of SU_vector: `other`/`V` reference parameters become pointers
def suv_method_rules(ref_params=("other", "V")):
    """a method of SU_vector: bare members -> self->member; reference parameters -> pointers"""
    rs = []
    for p in ref_params:
        rs.append(Rule("ref." + p, r'(?<![\w.>])' + p + r'\s*\.\s*', p + '->'))
        rs.append(Rule("addr." + p, r'&\s*' + p + r'\b(?!->)', p))
    rs.append(members_rule("suv", SUV_MEMBERS))
    rs.append(Rule("this.eq", r'\bthis\s*==', 'self=='))
    rs.append(Rule("this.arrow", r'\bthis\s*->\s*', 'self->'))
    rs.append(Rule("return.this", r'return\s*\(?\s*\*\s*this\s*\)?\s*;', 'return;'))
    rs.append(Rule("dealloc", r'(?<![\w>.])deallocate_mem\s*\(\s*\)', 'su_deallocate_mem(self,self->components)'))
    rs.append(Rule("alloc_aligned", r'(?<![\w>.])alloc_aligned\s*\(\s*([^,()]+?)\s*,\s*([^,()]+?)\s*,\s*self->components\s*,\s*self->ptr_offset\s*\)\s*;',
                   r'su_alloc_aligned(\1,\2,&self->components,&self->ptr_offset); SQ_PROPAGATE;'))
    rs.append(Rule("new.double", r'\bnew\s+double\s*\[\s*([^\]]+)\]', r'sq_new_double(\1)'))
    # out-parameter form (CBMC 6.11 runs out of memory on is_fresh(__CPROVER_return_value) followed by a havoc of the fresh object)
    rs.append(Rule("new.double.out", r'self->components\s*=\s*\(?\s*sq_new_double\(([^()]+)\)\s*\)?\s*;', r'sq_new_double_o(\1,&self->components); SQ_PROPAGATE;'))
    return rs


# statement forms with local SU_vector objects (closed table; DESIGN App. E)
SUV_LOCALS = [
    Rule("local.default", r'\bSU_vector\s+(\w+)\s*;', r'struct SU_vector \1; su_ctor_default(&\1);'),
    Rule("local.make_aligned", r'\bSU_vector\s+(\w+)\s*=\s*make_aligned\s*\(\s*(\w+)\s*\)\s*;',
         r'struct SU_vector \1; su_make_aligned(&\1,\2,true); SQ_PROPAGATE;'),
    Rule("local.make_aligned2", r'\bSU_vector\s+(\w+)\s*=\s*make_aligned\s*\(\s*(\w+)\s*,\s*(\w+)\s*\)\s*;',
         r'struct SU_vector \1; su_make_aligned(&\1,\2,\3); SQ_PROPAGATE;'),
    Rule("alloc_aligned.args", r'(?<![\w>.])alloc_aligned\s*\(\s*([\w.>-]+)\s*,\s*([\w.>-]+)\s*,\s*([\w.>-]+)\s*,\s*([\w.>-]+)\s*\)\s*;',
         r'su_alloc_aligned(\1,\2,&\3,&\4); SQ_PROPAGATE;'),
]
FACTORY = [
    # VLA `double m[d][d]` (CBMC 6.11 loses the contents of 2-D VLAs): flat array, row-major index i*d+j -- the definition of
    # C/C++ array indexing for row length d; d<=SQ_MAXD becomes an obligation
    # 2-D scratch matrices (variable-length or fixed-size): flat storage indexed with the DECLARED row length, so a view with another stride is seen
    Rule("factory.vla.decl", r'double\s+m_real\[([^\]\[]+)\]\[([^\]\[]+)\]\s*;\s*double\s+m_imag\[([^\]\[]+)\]\[([^\]\[]+)\]\s*;',
         r'SQ_ASSERT((\1)<=SQ_MAXD && (\2)<=SQ_MAXD && (\1)==(\3) && (\2)==(\4)); const unsigned m_row_=(\2); double m_real[SQ_MAXD*SQ_MAXD]; double m_imag[SQ_MAXD*SQ_MAXD];'),
    Rule("factory.vla.index", r'\bm_(real|imag)\[([^\]\[]+)\]\[([^\]\[]+)\]', r'm_\1[(\2)*m_row_+(\3)]'),
    Rule("factory.vla.row0", r'\bm_(real|imag)\[0\](?!\s*\[)', r'&m_\1[0]'),
    Rule("factory.array2d", r'\bsq_array_2D\s*\{', '(struct sq_array_2D){'),
    Rule("factory.cfm.propagate", r'(ComponentsFromMatrices\s*\((?:[^()]|\([^()]*\))*\)\s*;)', r'\1 SQ_PROPAGATE_D(v);'),
    Rule("factory.return", r'return\s*\(\s*v\s*\)\s*;', '*ret=v; return;', min=1),
]
# constructor initialiser list `a(x), b(y)` -> assignments in the order written (checked against declaration order by the caller)
CTOR_INIT = [
    Rule("ref.V", r'(?<![\w.>])V\s*\.\s*', 'V->'),
    Rule("ref.comp", r'(?<![\w.>])comp\s*\.\s*size\(\)', 'comp_n'),
    Rule("ref.m", r'(?<![\w.>])m->size1', 'm->size1'),
    Rule("ctor.init", r'\b(dim|size|components|ptr_offset|isinit_d|isinit)\s*\(((?:[^()]|\([^()]*\))*)\)\s*,?', r'self->\1=(\2);'),
    Rule("nullptr", r'\bnullptr\b', 'NULL'),
]

PROXY_ACCESS = [
    Rule("proxy.member", r'\bproxy\.suv([12])\.', r'proxy->suv\1->'),
    Rule("proxy.addr", r'&\s*proxy\.suv([12])\b(?!\s*\.)', r'proxy->suv\1'),
    Rule("proxy.steal", r'\bproxy\.mayStealArg([12])\(\)', r'mayStealArg\1(proxy)'),
]

GUARDS = [
    Rule("g.this", r'\*\s*this\b', '(*self)'),
    Rule("g.dim", r'\b(suv[12])\.Dim\(\)', r'\1->dim'),
    Rule("g.flags", r'detail::(Arg[12]Movable)', r'SQ_\1'),
    Rule("g.mkproxy", r'return\s*\(\s*detail::(\w+?)(?:<Op>)?\s*\{([^}]*)\}\s*\)\s*;',
         lambda m: 'SQ_MKPROXY_%s(ret,%s); return;' % (m.group(1), re.sub(r'(?<![\w.>*(])(other|suv1|suv2)(?![\w.])', r'(*\1)', m.group(2)))),
]

# R2 (DESIGN 2.1): the kernels' target store goes through the wrapper
R2 = [
    Rule("R2.acc", r'\(?\s*\b(suv_new|suv3|target)\s*\)?\s*\.\s*components\s*\[([^\]]+)\]\s*\+=\s*([^;]+);', r'SQ_ACC(\1,\2,\3);'),
]

CACHE = [
    Rule("cache.orig", r'\blist_head\s+orig\s*=\s*list\s*;', 'struct list_head orig=*list;'),
    Rule("cache.load", r'\blist_head\s+orig\s*=\s*list\.load\(\)\s*,\s*next\s*;', 'struct list_head orig=sq_load(list), next;'),
    Rule("cache.cas", r'std::atomic_compare_exchange_weak\s*\(\s*&list\s*,\s*&orig\s*,\s*next\s*\)', 'sq_cas(list,&orig,next)'),
    Rule("cache.listdot", r'\blist\.index\b', 'list->index'),
    Rule("cache.auto", r'\bauto\s+next_ptr\s*=', 'struct record* next_ptr='),
    Rule("cache.entries", r'(?<![\w.>])entries\b', 'self->entries'),
    Rule("cache.store", r'\b(free_list|data_list)\.store\s*\(\s*\{([^}]*)\}\s*\)\s*;', r'sq_store(&self->\1,(struct list_head){\2});'),
    Rule("cache.headinit", r'\b(free_list|data_list)\s*=\s*list_head\s*\{([^}]*)\}\s*;', r'self->\1=(struct list_head){\2};'),
    Rule("cache.recordptr", r'(?<![\w>])(?<!struct )record\s*\*', 'struct record*'),
    Rule("cache.pop", r'\bpop\s*\(\s*(free_list|data_list)\s*\)', r'cache_pop(self,&self->\1)'),
    Rule("cache.push", r'\bpush\s*\(\s*(free_list|data_list)\s*,\s*entry\s*\)', r'cache_push(self,&self->\1,entry)'),
    Rule("cache.Tempty", r'return\s*\(\s*T\s*\(\s*\)\s*\)\s*;', 'return T_empty();'),
    Rule("cache.conv", r'return\s*\(\s*\*entry\s*\)\s*;', 'return entry->data;   /* record::operator T() */'),
    Rule("cache.conv2", r'\bT\s+(\w+)\s*=\s*\*entry\s*;', r'T \1=entry->data;   /* record::operator T() */'),
]

ALLOC = [
    Rule("alloc.cache.get", r'\bmem_cache_entry\s+cache_result\s*=\s*storage_cache\[dim\]\.get\(\)\s*;', 'mem_cache_entry cache_result=cache_get(dim);'),
    Rule("alloc.cache.insert", r'storage_cache\[(\w+(?:->\w+)?)\]\.insert\s*\(\s*mem_cache_entry\s*\{([^}]*)\}\s*\)', r'cache_insert(\1,(mem_cache_entry){\2})'),
    Rule("alloc.new", r'\bnew\s+double\s*\[\s*([^\]]+)\]', r'sq_new(\1)'),
    Rule("alloc.delete", r'\bdelete\s*\[\s*\]\s*\(([^;]*)\)\s*;', r'sq_del(\1);'),
    Rule("alloc.intptr", r'\(\s*intptr_t\s*\)\s*\(', 'sq_addr('),
]

SQUIDS_MEMBERS = ['CoherentRhoTerms', 'NonCoherentRhoTerms', 'OtherRhoTerms', 'GammaScalarTerms', 'OtherScalarTerms', 'AnyNumerics', 'is_init', 'adaptive_step', 't_ini', 'nsteps', 'size_rho', 'size_state', 'system', 'step', 'sys', 'h_min', 'h_max', 'abs_error', 'rel_error', 'dstate', 'nx', 'nsun', 'nrhos', 'nscalars', 'state', 'estate', 'last_dstate_ptr', 'last_estate_ptr', 'x', 't', 'h']
# closed table of statement forms with overloaded SU_vector expressions in SQuIDS.cpp (DESIGN App. E)
SQUIDS_FORMS = [
    # the three hook arguments are arbitrary call-free expressions: what they must be (node, index, stepper time) is the harness's obligation, not the extractor's
    Rule("form.icomm", r'(dstate\[ei\]\.rho\[i\])\s*=\s*iCommutator\s*\(\s*(estate\[ei\]\.rho\[i\])\s*,\s*HI\s*\(\s*([^(),;]+?)\s*,\s*([^(),;]+?)\s*,\s*([^(),;]+?)\s*\)\s*\)\s*;',
         r'{ struct SU_vector tmp_; hook_vec(K_HI,self,\3,\4,\5,&tmp_); op_assign_icomm(&\1,&\2,&tmp_,0); }'),
    Rule("form.setall", r'(dstate\[ei\]\.rho\[i\])\.SetAllComponents\s*\(\s*([^)]*)\)\s*;', r'op_setall(&\1,\2);'),
    Rule("form.acomm", r'(dstate\[ei\]\.rho\[i\])\s*-=\s*ACommutator\s*\(\s*GammaRho\s*\(\s*([^(),;]+?)\s*,\s*([^(),;]+?)\s*,\s*([^(),;]+?)\s*\)\s*,\s*(estate\[ei\]\.rho\[i\])\s*\)\s*;',
         r'{ struct SU_vector tmp_; hook_vec(K_GAMMARHO,self,\2,\3,\4,&tmp_); op_assign_acomm(&\1,&tmp_,&\5,2); }'),
    Rule("form.pluseq", r'(dstate\[ei\]\.rho\[i\])\s*\+=\s*InteractionsRho\s*\(\s*([^(),;]+?)\s*,\s*([^(),;]+?)\s*,\s*([^(),;]+?)\s*\)\s*;',
         r'{ struct SU_vector tmp_; hook_vec(K_INTRHO,self,\2,\3,\4,&tmp_); op_pluseq(&\1,&tmp_); }'),
    Rule("form.gammas", r'\bGammaScalar\s*\(\s*([^(),;]+?)\s*,\s*([^(),;]+?)\s*,\s*([^(),;]+?)\s*\)', r'hook_scalar(K_GAMMAS,self,\1,\2,\3)'),
    Rule("form.ints", r'\bInteractionsScalar\s*\(\s*([^(),;]+?)\s*,\s*([^(),;]+?)\s*,\s*([^(),;]+?)\s*\)', r'hook_scalar(K_INTS,self,\1,\2,\3)'),
    Rule("form.prederive", r'\bPreDerive\s*\(\s*(\w+)\s*\)\s*;', r'hook_pre(self,\1);'),
    Rule("form.setbacking", r'((?:estate|dstate)\[ei\]\.rho\[i\])\.SetBackingStore\s*\(((?:[^()]|\((?:[^()]|\([^()]*\))*\))*)\)\s*;', r'op_setbacking(&\1,\2);'),
]

A = r'\s*([^(),;]+?)\s*'       # one call-free argument expression
SQUIDS_C05 = [
    Rule("c05.lower_bound", r'auto\s+xit\s*=\s*std::lower_bound\s*\(\s*x\.begin\(\)\s*,\s*x\.end\(\)\s*,\s*xi\s*\)\s*;', 'size_t xit=sq_lower_bound(x,nx,xi);'),
    Rule("c05.upper_bound", r'auto\s+xit\s*=\s*std::upper_bound\s*\(\s*x\.begin\(\)\s*,\s*x\.end\(\)\s*,\s*xi\s*\)\s*;', 'size_t xit=sq_upper_bound(x,nx,xi);'),
    Rule("c05.end", r'\bxit\s*==\s*x\.end\(\)', 'xit==nx'),
    Rule("c05.begin", r'\bxit\s*!=\s*x\.begin\(\)', 'xit!=0'),
    Rule("c05.front", r'\bx\.front\(\)', 'x[0]'),
    Rule("c05.back", r'\bx\.back\(\)', 'x[nx-1]'),
    Rule("c05.distance", r'std::distance\s*\(\s*x\.begin\(\)\s*,\s*xit\s*\)', 'xit'),
    Rule("c05.buf.assign", r'\bbuf\.state\s*=\s*(\w+)\s*\*\s*(state\[[^\]]+\]\.rho\[nrh\])\s*;', r'op_assign_mul(&buf->state,&\2,\1,0);'),
    Rule("c05.buf.incr", r'\bbuf\.state\s*\+=\s*(\w+)\s*\*\s*(state\[[^\]]+\]\.rho\[nrh\])\s*;', r'op_assign_mul(&buf->state,&\2,\1,1);'),
    Rule("c05.buf.evol", r'\bbuf\.op\s*=\s*op\.Evolve\s*\(\s*H0\s*\(%s,%s\)\s*,%s\)\s*;' % (A, A, A),
         r'{ struct SU_vector h0_; hook_H0(self,\1,\2,&h0_); op_assign_evol(&buf->op,&h0_,op,\3,0); }'),
    # averaging overloads: evolution buffer sized by the H0 it will hold, PrepareEvolve(buffer,tau,scale,avr) on that H0, Evolve(buffer), two scalar products
    Rule("c05.avg.bufsize.h0", r'std::unique_ptr<double\[\]>\s+evol_buf\s*\(\s*new\s+double\s*\[\s*H0\s*\(%s,%s\)\s*\.\s*GetEvolveBufferSize\s*\(\s*\)\s*\]\s*\)\s*;' % (A, A),
         r'double* evol_buf; { struct SU_vector hb_; hook_H0(self,\1,\2,&hb_); evol_buf=op_evolbuf(&hb_); }'),
    Rule("c05.avg.bufsize.local", r'std::unique_ptr<double\[\]>\s+evol_buf\s*\(\s*new\s+double\s*\[\s*h0\s*\.\s*GetEvolveBufferSize\s*\(\s*\)\s*\]\s*\)\s*;',
         r'double* evol_buf=op_evolbuf(&h0);'),
    Rule("c05.avg.prepare.h0", r'\bH0\s*\(%s,%s\)\s*\.\s*PrepareEvolve\s*\(\s*evol_buf\.get\(\)\s*,%s,%s,%s\)\s*;' % (A, A, A, A, A),
         r'{ struct SU_vector hp_; hook_H0(self,\1,\2,&hp_); op_prepare_avg(&hp_,evol_buf,\3,\4,\5); }'),
    Rule("c05.avg.prepare.local", r'\bh0\s*\.\s*PrepareEvolve\s*\(\s*evol_buf\.get\(\)\s*,%s,%s,%s\)\s*;' % (A, A, A), r'op_prepare_avg(&h0,evol_buf,\1,\2,\3);'),
    Rule("c05.avg.evol", r'\bbuf\.op\s*=\s*op\.Evolve\s*\(\s*evol_buf\.get\(\)\s*\)\s*;', r'op_assign_fastevol(&buf->op,op,evol_buf,0);'),
    Rule("c05.avg.ret", r'return\s*\(\s*buf\.op\s*\*\s*(state\[[^\]]+\]\.rho\[nrh\])\s*\)\s*\*\s*(\w+)\s*\+\s*\(\s*buf\.op\s*\*\s*(state\[[^\]]+\]\.rho\[nrh\])\s*\)\s*\*\s*(\w+)\s*;',
         r'{ double d1_=op_dot(&buf->op,&\1); double d2_=op_dot(&buf->op,&\3); return op_comb(d1_,\2,d2_,\4); }'),
    Rule("c05.avg.node.ret", r'return\s+(state\[i\]\.rho\[nrh\])\s*\*\s*op\.Evolve\s*\(\s*evol_buf\.get\(\)\s*\)\s*;',
         r'{ struct SU_vector ev_; op_assign_fastevol(&ev_,op,evol_buf,0); return op_dot(&\1,&ev_); }'),
    Rule("c05.buf.dot", r'return\s+buf\.state\s*\*\s*buf\.op\s*;', 'return op_dot(&buf->state,&buf->op);'),
    Rule("c05.node.h0", r'\b(?:const\s+)?SU_vector\s+h0\s*=\s*H0\s*\(%s,%s\)\s*;' % (A, A), r'struct SU_vector h0; hook_H0(self,\1,\2,&h0);'),
    Rule("c05.node.ret", r'return\s+(state\[i\]\.rho\[nrh\])\s*\*\s*op\.Evolve\s*\(\s*h0\s*,%s\)\s*;' % A,
         r'{ struct SU_vector ev_; op_assign_evol(&ev_,&h0,op,\2,0); return op_dot(&\1,&ev_); }'),
    Rule("c05.interm", r'return\s+(\w+)\s*\*\s*(state\[xid\]\.rho\[nrh\])\s*\+\s*(\w+)\s*\*\s*(state\[xid\+1\]\.rho\[nrh\])\s*;',
         r'{ LOG(K_ADDRR,0,0,\1,ret,&\2,&\4,0,\3); return; }'),
]

HOLDERS = [
    Rule("holder.decl", r'SQUIDS_THREAD_LOCAL\s+math_detail::gsl_matrix_complex_holder\s+(\w+)\s*;', r'struct holder* \1=&\1_;'),
    Rule("holder.reset", r'\b(U1|U2|T1|mv|mu|em)\.reset\s*\(', r'holder_reset(\1,'),
    Rule("holder.use", r'(?<![\w.>&])(U1|U2|T1)(?=\s*[,)])', r'(&\1->m)'),
]
PADE_B = [
    Rule("pade.b", r'std::vector<double>\s+b\s*\{([^}]*)\}\s*;', r'const R b[]={\1};', min=1),
]
PADE = [
    Rule("pade.holder.decl", r'SQUIDS_THREAD_LOCAL\s+gsl_matrix_complex_holder\s+(\w+)\s*;', r'struct holder* \1=&\1_;'),
    Rule("pade.holder.reset", r'\b(tmp|A8|B|id|U|V|A2|A4|A6)\.reset\s*\(', r'holder_reset(\1,'),
    Rule("pade.holder.use", r'(?<![\w.>&])(tmp|A8)(?=\s*[,)])', r'(&\1->m)'),
]
EXPM_TAIL = [
    Rule("tail.holder.use", r'(?<![\w.>&])(B|U|V|id|A2|A4|A6)(?=\s*[,)])', r'(&\1->m)', min=1),
    Rule("tail.ceil_log2", r'std::ceil\s*\(\s*log\s*\(([^()]*)\)\s*/\s*M_LN2\s*\)', r'sq_ceil_log2(\1)', min=1),
    Rule("tail.max.int", r'std::max\s*\(\s*u\s*,\s*0\s*\)', r'sq_imax(u,0)', min=1),
    Rule("tail.max", r'std::max\s*\(', r'sq_max('),
    Rule("tail.min", r'std::min\s*\(', r'sq_min('),
    Rule("tail.pow", r'(?<![\w.>])pow\s*\(', r'sq_pow('),
]

RULESETS = {
    "common": COMMON,
    "holders": HOLDERS,
    "pade": PADE,
    "padeb": PADE_B,
    "expm_tail": EXPM_TAIL,
    "wrapapply": [   # whichever compound operation the wrapper performs is recorded; that it is the statement's own is assignProxy's obligation
        Rule("wrap.assign", r'return\s*\(\s*target\s*=\s*source\s*\)\s*;', 'g_applied=0; su_assign_copy(target,source); return;'),
        Rule("wrap.plus", r'return\s*\(\s*target\s*\+=\s*source\s*\)\s*;', 'g_applied=1; su_pluseq(target,source); return;'),
        Rule("wrap.minus", r'return\s*\(\s*target\s*-=\s*source\s*\)\s*;', 'g_applied=2; su_minuseq(target,source); return;'),
    ],
    "minmax": [
        Rule("std.min", r'\bstd::min\s*(?:<[^<>]*>)?\s*\(', 'SQ_MIN('),
        Rule("std.max", r'\bstd::max\s*(?:<[^<>]*>)?\s*\(', 'SQ_MAX('),
    ],
    "ellrules": [
        Rule("ell.holder.reset", r'\babsA\.reset\s*\(', 'holder_reset(absA,', min=1),
        Rule("ell.holder.arrow", r'\babsA->', '(&absA->m)->', min=2),
        Rule("ell.holder.use", r'(?<![\w.>&])absA(?=\s*[,)])', '(&absA->m)', min=3),
        Rule("ell.pow", r'(?<![\w.>])pow\s*\(', 'sq_pow(', min=1),
        Rule("ell.log2", r'(?<![\w.>])log\s*\(([^()]*)\)\s*/\s*M_LN2', r'sq_log2(\1)', min=1),
        Rule("ell.ceil", r'\(int\)\(\s*std::ceil\s*\(((?:[^()]|\([^()]*\))*)\)\s*\)', r'sq_iceil(\1)', min=1),
        Rule("ell.max", r'std::max\s*\(', 'sq_imax(', min=1),
    ],
    "solvepq": [
        Rule("spq.perm.decl", r'SQUIDS_THREAD_LOCAL\s+gsl_permutation_holder\s+(\w+)\s*;', r'struct perm* \1=&\1_s;', min=1),
        Rule("spq.perm.reset", r'\bper\.reset\s*\(', 'perm_reset(per,', min=1),
        Rule("spq.holder.reset", r'\b(P|Q)\.reset\s*\(', r'holder_reset(\1,', min=2),
        Rule("spq.holder.use", r'(?<![\w.>&])(P|Q)(?=\s*[,)])', r'(&\1->m)', min=4),
    ],
    "suwrap": [
        Rule("wrap.get.v", r'(?<![\w.>])v\.GetGSLMatrix\s*\(\s*(\w+)\s*\)\s*;', r'su_GetGSLMatrix_into(v,\1);'),
        Rule("wrap.get.new", r'const\s+SU_vector&\s*suv1\s*=\s*\*\s*this\s*;\s*auto\s+m\s*=\s*suv1\.GetGSLMatrix\s*\(\s*\)\s*;', 'gsl_matrix_complex* m=su_GetGSLMatrix_new(self);'),
        Rule("wrap.get.self", r'(?<![\w.>])GetGSLMatrix\s*\(\s*(\w+)\s*\)\s*;', r'su_GetGSLMatrix_into(self,\1);'),
        Rule("wrap.mget", r'\bm\.get\(\)', 'm'),
        Rule("wrap.scale", r'\bgsl_matrix_complex_scale\s*\(', 'gsl_matrix_complex_scale_h('),
        Rule("wrap.expm", r'\bmath_detail::matrix_exponential\s*\(', 'sq_matrix_exponential('),
        Rule("wrap.ucmu", r'\bgsl_matrix_complex_change_basis_UCMU\s*\(\s*([^,()]+?)\s*,\s*([^,()]+?)\s*\)', r'sq_UCMU(MPTR(\1),MPTR(\2))'),
        Rule("wrap.iucmu", r'\bgsl_matrix_complex_change_basis_IUCMU\s*\(\s*([^,()]+?)\s*,\s*([^,()]+?)\s*\)', r'sq_IUCMU(MPTR(\1),MPTR(\2))'),
        Rule("wrap.ret.move", r'return\s+SU_vector\s*\(\s*std::move\s*\(\s*m\s*\)\s*\)\s*;', 'su_ctor_matrix(ret,m); return;'),
        Rule("wrap.ret", r'return\s+SU_vector\s*\(\s*(\w+)\s*\)\s*;', r'su_ctor_matrix(ret,\1); return;'),
        Rule("wrap.forward", r'return\s+(UTransform|UDaggerTransform)\s*\(\s*(?:const_cast<[^<>]*>\s*\(\s*(\w+)\s*\)|(\w+))\s*\)\s*;',
             lambda m: '%s_em(self,ret,(gsl_matrix_complex*)%s); return;' % (m.group(1), m.group(2) or m.group(3))),
        Rule("wrap.dim", r'(?<![\w.>])dim\b', 'self->dim'),
    ],
    "wrot": [
        Rule("wr.ctor", r'SU_vector\s+suv\s*\(\s*dim\s*\)\s*;', 'struct SU_vector suv; su_ctor_sized(&suv,self->dim);', min=1),
        Rule("wr.copy", r'(?<![\w.>])suv\s*=\s*\*\s*this\s*;', 'su_assign(&suv,self);', min=1),
        Rule("wr.store", r'\*\s*this\s*=\s*suv\s*;', 'su_assign(self,&suv);', min=1),
        Rule("wr.b0", r'(?<![\w.>])suv\.RotateToB0\s*\(\s*(\w+)\s*\)\s*;', r'su_RotateToB0(&suv,\1);'),
        Rule("wr.b1", r'(?<![\w.>])suv\.RotateToB1\s*\(\s*(\w+)\s*\)\s*;', r'su_RotateToB1(&suv,\1);'),
        Rule("wr.udag", r'(?<![\w.>])suv\s*=\s*suv\.UDaggerTransform\s*\(\s*(\w+)\s*\)\s*;', r'su_assign_UDagger(&suv,&suv,\1);'),
        Rule("wr.ut", r'(?<![\w.>])suv\s*=\s*suv\.UTransform\s*\(\s*(\w+)\s*\)\s*;', r'su_assign_UTransform(&suv,&suv,\1);'),
        Rule("wr.sandwich", r'(?<![\w.>])suv\s*=\s*\(\s*ACommutator\s*\(\s*(\w+)\s*,\s*ACommutator\s*\(\s*(\w+)\s*,\s*(\w+)\s*\)\s*\)\s*\+\s*iCommutator\s*\(\s*(\w+)\s*,\s*iCommutator\s*\(\s*(\w+)\s*,\s*(\w+)\s*\)\s*\)\s*\)\s*\*\s*([0-9.eE+-]+)\s*;',
             r'op_sandwich(&suv,\1,\2,&\3,\4,\5,&\6,\7);', min=1),
    ],
    "const_tm": [
        Rule("tm.throw", r'SQ_THROW\(((?:[^()]|\((?:[^()]|\([^()]*\))*\))*)\)\s*;', 'SQ_THROW("");', min=1),
        Rule("tm.lambda", r'auto\s+to_gsl\s*=\s*\[\s*\]\s*\([^)]*\)\s*->\s*gsl_complex\s*\{[^}]*\}\s*;', '', min=1),
        Rule("tm.consts", r'const\s+auto\s+(unit|zero)\b', r'const gsl_complex \1', min=2),
        Rule("tm.cp", r'auto\s+cp\s*=\s*sin\s*\(\s*theta\s*\)\s*\*\s*std::exp\s*\(\s*std::complex<double>\s*\(\s*0\s*,\s*([^()]+?)\s*\)\s*\)\s*;', r'cplx cp=c_scale(sin(theta),c_expi(\1));', min=1),
        Rule("tm.cpc", r'auto\s+cpc\s*=\s*-\s*std::conj\s*\(\s*cp\s*\)\s*;', 'cplx cpc=c_neg(c_conj(cp));', min=1),
        Rule("tm.real", r'\bto_gsl\s*\(\s*c\s*\)', 'to_gsl_r(c)', min=2),
        Rule("tm.angle", r'(?<![\w.>])GetMixingAngle\s*\(', 'Const_GetMixingAngle(self,', min=1),
        Rule("tm.phase", r'(?<![\w.>])GetPhase\s*\(', 'Const_GetPhase(self,', min=1),
        Rule("tm.return", r'return\s+std::unique_ptr<[^;]*?>\s*\(\s*U\s*,\s*gsl_matrix_complex_free\s*\)\s*;', 'return U;', min=1),
    ],
    "const_store": [
        # exception texts built with std::to_string / string concatenation: the message is not part of the contract
        Rule("const.throw", r'SQ_THROW\(((?:[^()]|\((?:[^()]|\([^()]*\))*\))*)\)\s*;', 'SQ_THROW("");'),
        Rule("const.get", r'\b(th|dcp|de)\.get\(\)', r'self->\1', min=1),
    ],
    "squids_ini": [
        Rule("ini.system", r'\bsystem\.reset\s*\(\s*new\s+double\s*\[\s*(\w+)\s*\]\s*\)\s*;', r'system=op_new_system(\1);', min=1),
        Rule("ini.x", r'(?<![\w.>])x\.resize\s*\(\s*(\w+)\s*\)\s*;', r'op_x_resize(self,\1);', min=1),
        Rule("ini.states", r'\b(state|estate|dstate)\.reset\s*\(\s*new\s+SU_state\s*\[\s*(\w+)\s*\]\s*\)\s*;', r'\1=op_new_states(ID_\1,\2);', min=3),
        Rule("ini.rhos", r'\b(state|estate|dstate)\[ei\]\.rho\.reset\s*\(\s*new\s+SU_vector\s*\[\s*(\w+)\s*\]\s*\)\s*;', r'\1[ei].rho=op_new_rhos(ID_\1,ei,\2);', min=3),
        Rule("ini.view", r'\b((?:state|estate|dstate)\[ei\]\.rho\[i\])\s*=\s*SU_vector\s*\(\s*(\w+)\s*,\s*(NULL|&\s*\(\s*system\[[^\]]*\]\s*\))\s*\)\s*;',
             r'op_assign_ext(&\1,\2,\3);', min=3),
    ],
    "squids_move": [
        Rule("move.take", r'std::move\s*\(\s*other\.(\w+)\s*\)', r'sq_take(&other->\1)'),
        Rule("move.other", r'(?<![\w.>])other\s*\.\s*', 'other->'),
        Rule("move.selfcmp", r'&\s*other\s*==\s*this', 'other==self'),
        Rule("move.params", r'(?<![\w.>])sys\s*\.\s*params\s*=\s*this\b', 'self->sys.params=self'),
        Rule("move.return", r'return\s*\(\s*\*\s*this\s*\)\s*;', 'return;'),
        Rule("move.init", r'(?<![\w.>])(%s)\s*\(((?:[^()]|\([^()]*\))*)\)\s*,?' % "CoherentRhoTerms|NonCoherentRhoTerms|OtherRhoTerms|GammaScalarTerms|OtherScalarTerms|AnyNumerics|is_init|adaptive_step|t_ini|t|h_min|h_max|h|abs_error|rel_error|nsteps|size_rho|size_state|nx|nsun|nrhos|nscalars|x|system|dstate|params|state|estate|step|last_dstate_ptr|last_estate_ptr|sys", r'self->\1=(\2);'),
        Rule("move.member", r'(?<![\w.>])(%s)\b(?!\s*\()' % "CoherentRhoTerms|NonCoherentRhoTerms|OtherRhoTerms|GammaScalarTerms|OtherScalarTerms|AnyNumerics|is_init|adaptive_step|t_ini|t|h_min|h_max|h|abs_error|rel_error|nsteps|size_rho|size_state|nx|nsun|nrhos|nscalars|x|system|dstate|params|state|estate|step|last_dstate_ptr|last_estate_ptr|sys", r'self->\1'),
    ],
    "rotorder": [
        Rule("rot.assign", r'\*\s*this\s*=\s*Rotate\s*\(', 'su_assign_rotate(self,', min=1),
        Rule("rot.angle", r'\bparam\s*\.\s*GetMixingAngle\s*\(', 'Const_GetMixingAngle(param,', min=1),
        Rule("rot.phase", r'\bparam\s*\.\s*GetPhase\s*\(', 'Const_GetPhase(param,', min=1),
        Rule("rot.dim", r'(?<![\w.>])dim\b', 'self->dim', min=1),
    ],
    "eigsys": [
        Rule("eig.closed_form", r'#\s*include\s*<SQuIDS/SU_inc/EigenSystemSU3\.txt>', 'sq_closed_form_su3(self,eigenvalues,eigenvectors);', min=1),
        Rule("eig.getmatrix", r'auto\s+matrix\s*=\s*\(\s*\*\s*this\s*\)\s*\.\s*GetGSLMatrix\s*\(\s*\)\s*;', 'gsl_matrix_complex* matrix_=su_GetGSLMatrix(self);', min=1),
        Rule("eig.matrix.get", r'\bmatrix\s*\.\s*get\s*\(\s*\)', 'matrix_', min=1),
        Rule("eig.define", r'#\s*(define\s+SQ\(x\).*|undef\s+SQ)', ''),
        Rule("eig.dim", r'(?<![\w.>])dim\b', 'self->dim', min=3),
        # C++ function-local static with a dynamic initialiser: initialised on first execution
        Rule("eig.static_local", r'static\s+(?:SQUIDS_THREAD_LOCAL\s+|thread_local\s+)?([\w:]+\s*\*?)\s*(\w+)\s*=\s*([^;]+);',
             r'static \1 \2; static int \2_init_; if(!\2_init_){ \2=\3; \2_init_=1; }'),
    ],
    "eig3": [
        Rule("eig3.div", r'/\s*([A-Za-z_]\w*)\b(?!\s*[\w(\[])', r'/sq_nz(\1)', min=1),
        Rule("eig3.arg", r'std::arg\s*\(\s*std::complex<double>\s*\{([^{}]*)\}\s*\)', r'sq_arg(\1)', min=1),
        Rule("eig3.pow", r'(?<![\w.>:])pow\s*\(', 'sq_pow('),
        Rule("eig3.cbrt", r'(?<![\w.>:])cbrt\s*\(', 'sq_cbrt('),
        Rule("eig3.sqrt", r'(?<![\w.>:])sqrt\s*\(', 'sq_sqrt('),
        Rule("eig3.cos", r'(?<![\w.>:])cos\s*\(', 'sq_cos('),
        Rule("eig3.sin", r'(?<![\w.>:])sin\s*\(', 'sq_sin('),
    ],
    "expm_head": [EXPM_TAIL[0]] + EXPM_TAIL[3:],
    "squids_c05": SQUIDS_C05,
    "squids_forms": SQUIDS_FORMS,
    "squids_members": [members_rule("squids", SQUIDS_MEMBERS)],
    "alloc": ALLOC,
    "suv_members_only": [members_rule("suv", SUV_MEMBERS)],
    "cache": CACHE,
    "r2": R2,
    "guards": GUARDS,
    "proxy_access": PROXY_ACCESS,
    "suv_method": suv_method_rules(),
    "suv_locals": SUV_LOCALS,
    "factory": FACTORY,
    "ctor_init": CTOR_INIT,
}


def register(name, rules):
    RULESETS[name] = rules


# ---------------------------------------------------------------------------------------
def loop_heads(body):
    """indices just after the closing parenthesis of every for/while header, in order."""
    res = []
    for m in re.finditer(r'(?<![\w_])(for|while)\s*\(', body):
        # skip `}while(` of do-while
        j = match_close(body, m.end() - 1, '(', ')')
        k = j + 1
        rest = body[k:k + 3].lstrip()
        if m.group(1) == 'while' and rest.startswith(';'):
            continue
        res.append(j + 1)
    return res


def insert_loop_contracts(body, loops, ctx):
    heads = loop_heads(body)
    for ordn in sorted(loops, reverse=True):
        if ordn >= len(heads):
            raise ExtractionError("loop #%d not found in %s (%d loops)" % (ordn, ctx, len(heads)))
        p = heads[ordn]
        body = body[:p] + "\n" + loops[ordn] + "\n" + body[p:]
    return body


def parse_kv(s):
    kv = {}
    for m in re.finditer(r'(\w+)=("([^"]*)"|/((?:[^/\\]|\\.)*)/|\S+)', s):
        v = m.group(3) if m.group(3) is not None else (m.group(4) if m.group(4) is not None else m.group(2))
        kv[m.group(1)] = v
    return kv


def instantiate(template_text, report=None, defines=None):
    """Expand the directives of a template; returns C text.  `report.rule()` gets the counts."""
    lines = template_text.split('\n')
    out = []
    fired = {}
    i = 0
    srcmap = []
    while i < len(lines):
        ln = lines[i]
        st = ln.strip()
        if st.startswith('//@BODY') or st.startswith('//@KERNEL'):
            kind = 'BODY' if st.startswith('//@BODY') else 'KERNEL'
            kv = parse_kv(st)
            loops, subs = {}, []
            i += 1
            while i < len(lines) and (lines[i].strip().startswith('//@LOOP') or lines[i].strip().startswith('//@SUB')
                                      or lines[i].strip().startswith('//@+')):
                s2 = lines[i].strip()
                if s2.startswith('//@LOOP'):
                    m = re.match(r'//@LOOP\s+(\d+)\s+(.*)', s2)
                    cur = int(m.group(1))
                    loops[cur] = loops.get(cur, '') + ' ' + m.group(2)
                elif s2.startswith('//@+'):
                    loops[cur] += ' ' + s2[4:]
                else:
                    m = re.match(r'//@SUB\s+/((?:[^/\\]|\\.)*)/((?:[^/\\]|\\.)*)/\s*(?:min=(\d+))?', s2)
                    if not m:
                        raise ExtractionError("bad SUB directive: " + s2)
                    subs.append(Rule("sub:" + m.group(1)[:40], m.group(1), m.group(2).replace('\\/', '/'),
                                     int(m.group(3) or 1)))
                i += 1
            if kind == 'BODY':
                cut = cut_function(kv['file'], kv['sig'], int(kv.get('nth', 0)))
                ctx = "%s:%d" % (cut.file, cut.line)
                part = kv.get('part', 'body')
                rules = []
                for rsn in kv.get('rules', 'common').split(','):
                    if rsn not in RULESETS:
                        raise ExtractionError("unknown rule set " + rsn)
                    rules += RULESETS[rsn]
                if part == 'all':      # constructor: initialiser list (-> assignments, in the order written) followed by the body
                    raw = apply_rules(cut.init + '\n/*@@BODY@@*/\n' + cut.body, subs, fired, ctx)   # specific rules see the C++ text
                    ini, bod = raw.split('/*@@BODY@@*/')
                    text = apply_rules(ini, RULESETS["ctor_init"], fired, ctx) + '\n' + bod
                else:
                    text = cut.body if part == 'body' else cut.init
                    # from=/re/ and until=/re/ cut a contiguous statement range out of the body (each regex must match exactly once;
                    # the range starts at the match of `from` and ends just before the match of `until`); braces must balance in the range
                    for key in ('from', 'until'):
                        if key in kv:
                            ms = list(re.finditer(kv[key], text))
                            if len(ms) != 1:
                                raise ExtractionError("%s: %s=/%s/ matched %d times (must be exactly 1)" % (ctx, key, kv[key], len(ms)))
                            text = text[ms[0].start():] if key == 'from' else text[:ms[0].start()]
                            if text.startswith('{') and key == 'from':
                                pass
                    if ('from' in kv or 'until' in kv):
                        t2 = text.strip()
                        if 'from' not in kv and t2.startswith('{'):
                            t2 = t2[1:]
                        if 'until' not in kv and t2.endswith('}'):
                            t2 = t2[:-1]
                        if t2.count('{') != t2.count('}'):
                            raise ExtractionError("%s: from/until range does not have balanced braces" % ctx)
                        text = t2 if kv.get('braces') == '0' else '{' + t2 + '}'     # braces=0: the statements join the enclosing template block
                        fired['range.cut'] = fired.get('range.cut', 0) + 1
                    text = apply_rules(text, subs, fired, ctx)   # specific rules first (they see the C++ text)
                text = apply_rules(text, rules, fired, ctx)
                if loops:
                    text = insert_loop_contracts(text, loops, ctx)
                out.append('/* ---- extracted from %s ---- */' % ctx)
                out.append('#line %d "%s"' % (cut.line, os.path.join(REPO, cut.file)))
                out.append(text)
                out.append('#line %d "template"' % (i + 1))
                srcmap.append(ctx)
            else:
                rel = kv['file']
                text = strip_comments(repo_read(rel))
                rules = []
                for rsn in kv.get('rules', '').split(','):
                    if rsn:
                        rules += RULESETS[rsn]
                text = apply_rules(text, subs, fired, rel)
                text = apply_rules(text, rules, fired, rel)
                out.append('/* ---- kernel %s ---- */' % rel)
                out.append(text)
            continue
        if st.startswith('//@TRAITS'):
            import traits
            ttext, tn = traits.c_text()
            out.append(ttext)
            for k, v in tn.items():
                fired["traits." + k] = fired.get("traits." + k, 0) + v
            i += 1
            continue
        out.append(ln)
        i += 1
    if report is not None:
        for k, v in fired.items():
            report.rule(k, v)
    return '\n'.join(out)
