"""Layer 1: CBMC code contracts through goto-instrument --dfcc (DESIGN.md 3)."""
import json
import os
import re

from core import Undecided, run

# unsigned wrap-around is defined behaviour in C/C++ (e.g. size=dim*dim evaluated before the dimension guard): not checked
CBMC_CHECKS = ["--bounds-check", "--pointer-check", "--div-by-zero-check", "--signed-overflow-check",
               "--conversion-check", "--pointer-overflow-check"]


class Job:
    """One DFCC job = one function enforced against its contract.

    name      unique id (used for file names and obligation ids)
    ctext     C translation unit text
    harness   entry function
    enforce   function whose contract is enforced (None: plain harness, no DFCC)
    replace   callees replaced by their contracts
    loops     apply loop contracts
    unwind    bounded stand-in (int) -> obligations labelled bounded
    expect_fail  obligation-name regexes that MUST fail (vacuity/reachability guards)
    """

    def __init__(self, name, ctext, harness, enforce=None, replace=(), loops=False, unwind=None,
                 flags=(), timeout=300, mem_gb=12, function_label=None, defines=(), slice_formula=False,
                 checks=None, reach=True, object_bits=None, includes=(), bound_text=None, where="", complete=False, unwindset=(), sat_solver=None):
        self.__dict__.update(locals())
        del self.__dict__['self']


class Prop:
    def __init__(self, name, status, desc, loc, trace=None):
        self.name, self.status, self.desc, self.loc, self.trace = name, status, desc, loc, trace


class JobResult:
    def __init__(self, job):
        self.job = job
        self.props = []
        self.error = None      # text => undecided
        self.seconds = 0.0
        self.cmds = []
        self.log = ""


def _fmt_loc(sl):
    if not sl:
        return ""
    f = sl.get("file", "")
    return "%s:%s %s" % (f, sl.get("line", "?"), sl.get("function", ""))


def run_job(job, bdir, want_trace=True):
    res = JobResult(job)
    base = os.path.join(bdir, job.name)
    cfile = base + ".c"
    with open(cfile, "w") as f:
        f.write(job.ctext)
    inc = []
    for d in job.includes:
        inc += ["-I", d]
    defs = ["-D" + d for d in job.defines]
    c1 = ["goto-cc", "--function", job.harness] + inc + defs + [cfile, "-o", base + ".a.gb"]
    rc, out, err, s = run(c1, timeout=120)
    res.cmds.append(" ".join(c1))
    res.seconds += s
    if rc != 0:
        res.error = "goto-cc failed: " + (err or out)[-1500:]
        return res
    gb = base + ".a.gb"
    if job.enforce or job.loops:
        c2 = ["goto-instrument", "--dfcc", job.harness]
        if job.enforce:
            c2 += ["--enforce-contract", job.enforce]
        for r in job.replace:
            c2 += ["--replace-call-with-contract", r]
        if job.loops:
            c2 += ["--apply-loop-contracts"]
        c2 += [gb, base + ".b.gb"]
        rc, out, err, s = run(c2, timeout=300)
        res.cmds.append(" ".join(c2))
        res.seconds += s
        if rc != 0:
            res.error = "goto-instrument failed: " + (err or out)[-1500:]
            return res
        gb = base + ".b.gb"
    checks = CBMC_CHECKS if job.checks is None else list(job.checks)
    c3 = ["cbmc"] + checks + list(job.flags)
    if job.slice_formula:
        c3 += ["--slice-formula"]
    if job.sat_solver:
        c3 += ["--sat-solver", job.sat_solver]
    if job.unwind is not None:
        c3 += ["--unwind", str(job.unwind), "--unwinding-assertions"]
        if job.unwindset:
            c3 += ["--unwindset", ",".join(job.unwindset)]
    if job.object_bits:
        c3 += ["--object-bits", str(job.object_bits)]
    c3 += ["--json-ui", gb]
    rc, out, err, s = run(c3 + (["--trace"] if want_trace else []), timeout=job.timeout, mem_gb=job.mem_gb)
    res.cmds.append(" ".join(c3))
    res.seconds += s
    res.log = out[-4000:] if out else ""
    if rc is None:
        res.error = "cbmc time-out after %ds" % job.timeout
        return res
    try:
        js = json.loads(out)
    except Exception as e:
        res.error = "cbmc output not JSON (rc=%s): %s %s" % (rc, (out or "")[-600:], (err or "")[-600:])
        return res
    got = False
    for item in js:
        if isinstance(item, dict) and "result" in item:
            got = True
            for p in item["result"]:
                res.props.append(Prop(p.get("property", "?"), p.get("status", "?"), p.get("description", ""),
                                      _fmt_loc(p.get("sourceLocation")), p.get("trace")))
        if isinstance(item, dict) and item.get("messageType") == "ERROR":
            res.error = "cbmc error: " + item.get("messageText", "")[:800]
    if not got and not res.error:
        msgs = [i.get("messageText", "") for i in js if isinstance(i, dict) and "messageText" in i]
        res.error = "cbmc produced no results (rc=%s): %s" % (rc, " | ".join(msgs)[-800:])
    if job.loops and not res.error:
        if not any("loop_invariant_step" in p.name or "loop invariant" in p.desc.lower() for p in res.props):
            res.error = "loop contract silently dropped (no loop_invariant_step obligation)"
    return res


def trace_inputs(trace, names_regex=r'^(in_|gk)'):
    """Extract last assignment of harness input variables from a CBMC json trace."""
    vals = {}
    if not trace:
        return vals
    rx = re.compile(names_regex)
    for st in trace:
        if st.get("stepType") != "assignment":
            continue
        lhs = st.get("lhs", "")
        base = re.split(r'[\[.]', lhs)[0]
        if not rx.search(base):
            continue
        v = st.get("value", {})
        vals[lhs] = _val(v)
    return vals


def _val(v):
    if not isinstance(v, dict):
        return v
    if v.get("name") == "float" and "binary" in v and len(v["binary"]) == 64:
        import struct
        return repr(struct.unpack(">d", int(v["binary"], 2).to_bytes(8, "big"))[0])
    if "data" in v:
        return v["data"]
    if "elements" in v:
        return [_val(e.get("value")) for e in v["elements"]]
    if "members" in v:
        return {m.get("name"): _val(m.get("value")) for m in v["members"]}
    return v.get("name")


def record(report, res, pid_prefix, known_reach=("REACH",), classify=None):
    """Turn a JobResult into obligations of the report.  Returns list of failed Prop."""
    job = res.job
    fn = job.function_label or job.enforce or job.harness
    for c in res.cmds:
        report.cmd(re.sub(r'/\S*/\.build/\S*?/', '', c))
    if res.error:
        report.add("%s.%s" % (pid_prefix, job.name), fn, "L1", "cbmc", "undecided", res.seconds, job.where, res.error)
        return []
    failed = []
    reach_seen = False
    n = len(res.props) or 1
    for p in res.props:
        oid = "%s.%s.%s" % (pid_prefix, job.name, p.name)
        if "REACH" in p.desc:
            if not p.name.startswith(job.harness + "."):
                continue            # reachability guard of another harness in the same translation unit (unreachable from this entry)
            reach_seen = True
            ok = p.status == "FAILURE"
            report.vacuity.append(dict(job=job.name, guard=p.desc, reachable=ok))
            if not ok:
                report.undecide("%s: vacuity guard: harness end unreachable (%s)" % (job.name, p.desc))
            continue
        if p.status == "SUCCESS":
            st = "discharged"
        elif p.status == "FAILURE":
            st = "failed"
        else:
            st = "undecided"
        # unwinding assertions that fail mean the bound is too small: undecided, not a violation
        if st == "failed" and ("unwinding assertion" in p.desc or ".unwind." in p.name):
            st = "undecided"
        report.add(oid, fn, "L1", "cbmc-sat" + ("-unwind%d" % job.unwind if job.unwind is not None else "-dfcc"),
                   st, res.seconds / n, p.loc or job.where, p.desc,
                   bounded=(job.bound_text or "unwind %d" % job.unwind) if (job.unwind is not None and not job.complete) else None)
        if st == "failed":
            failed.append(p)
    if job.reach and not reach_seen:
        report.undecide("%s: vacuity guard missing from results" % job.name)
    return failed
