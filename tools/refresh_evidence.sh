#!/bin/sh
# Re-runs every claimed check (quick tier) on /repo's clean working tree and reports exit codes.
cd /verif
if [ -n "$(git -C /repo status --porcelain --untracked-files=no)" ]; then echo "/repo has uncommitted changes: refusing"; exit 3; fi
for id in $(python3 -c "import json;print(' '.join(c['property_id'] for c in json.load(open('MANIFEST.json'))['checks']))"); do
  ./check $id --tier quick > /tmp/refresh_$id.log 2>&1; echo "$id rc=$? $(tail -1 /tmp/refresh_$id.log)"
done
