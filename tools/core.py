"""Core of the SQuIDS contract-verification machinery: process running, obligation
bookkeeping, evidence writing, VIOLATION / KNOWN-FINDING protocol (DESIGN.md 5, App. D).

Exit protocol:  0 all obligations discharged (known findings printed)
                1 at least one VIOLATION line
                2 undecided: extraction failure, solver time-out, vacuity guard, tool crash
"""
import concurrent.futures as cf
import fnmatch
import json
import os
import re
import resource
import shutil
import subprocess
import sys
import time

VERIF = os.path.dirname(os.path.dirname(os.path.abspath(__file__)))
REPO = os.environ.get("VERIF_REPO", "/repo")
NCPU = int(os.environ.get("VERIF_JOBS", str(os.cpu_count() or 4)))
SEED = int(os.environ.get("VERIF_SEED", "0") or 0)


class Undecided(Exception):
    """Anything that must lead to exit 2 (never to a VIOLATION)."""


class ExtractionError(Undecided):
    pass


BUILD = os.environ.get("VERIF_BUILD", os.path.join(VERIF, ".build"))          # scratch (rebuilt on every run)
EVDIR = os.environ.get("VERIF_EVIDENCE_DIR", os.path.join(VERIF, "evidence"))   # only the seed runner redirects this


_created = []


def builddir(pid):
    d = os.path.join(BUILD, pid)
    shutil.rmtree(d, ignore_errors=True)
    os.makedirs(d)
    _created.append(d)
    return d


def cleanup():
    """scratch of this run (goto binaries, SMT files) is removed when the check ends; replay files (BUILD/replay) and the native replay build (BUILD/native) stay"""
    if os.environ.get("VERIF_KEEP_BUILD"):
        return
    for d in _created:
        shutil.rmtree(d, ignore_errors=True)


def _limits(mem_gb):
    def f():
        if mem_gb:
            b = int(mem_gb * (1 << 30))
            resource.setrlimit(resource.RLIMIT_AS, (b, b))
        os.setsid()
    return f


def run(cmd, timeout=120, mem_gb=8, cwd=None, stdin=None, env=None):
    """Run a command; returns (rc, stdout, stderr, seconds); rc=None on time-out."""
    t0 = time.time()
    try:
        p = subprocess.Popen(cmd, stdout=subprocess.PIPE, stderr=subprocess.PIPE, cwd=cwd,
                             stdin=subprocess.PIPE if stdin is not None else subprocess.DEVNULL,
                             preexec_fn=_limits(mem_gb), env=env, text=True)
        try:
            out, err = p.communicate(stdin, timeout=timeout)
        except subprocess.TimeoutExpired:
            try:
                os.killpg(p.pid, 9)
            except ProcessLookupError:
                pass
            out, err = p.communicate()
            return None, out, err, time.time() - t0
        return p.returncode, out, err, time.time() - t0
    except FileNotFoundError as e:
        raise Undecided("tool missing: %s" % e)


def pmap(fn, items, workers=None):
    workers = workers or NCPU
    with cf.ThreadPoolExecutor(max_workers=workers) as ex:
        return list(ex.map(fn, items))


def repo_read(rel):
    with open(os.path.join(REPO, rel)) as f:
        return f.read()


def repo_head():
    rc, out, _, _ = run(["git", "-C", REPO, "rev-parse", "--short", "HEAD"], timeout=20)
    return out.strip() if rc == 0 else "?"


# --------------------------------------------------------------------------------------
# known findings

class Known:
    def __init__(self):
        self.findings = []   # (pid, glob, text)
        self.fixed = []
        p = os.path.join(VERIF, "known_findings.txt")
        if os.path.exists(p):
            for ln in open(p):
                ln = ln.strip()
                if not ln or ln.startswith("#"):
                    continue
                m = re.match(r"finding:\s+property=(\S+)\s+obligation=(\S+)\s+(.*)", ln)
                if m:
                    self.findings.append((m.group(1), m.group(2), m.group(3)))
                    continue
                m = re.match(r"fixed:\s+property=(\S+)\s+(.*)", ln)
                if m:
                    self.fixed.append((m.group(1), m.group(2)))

    def match(self, pid, oid):
        for p, g, t in self.findings:
            if p == pid and fnmatch.fnmatchcase(oid, g):
                return (g, t)
        return None


# --------------------------------------------------------------------------------------
# report

class Report:
    def __init__(self, pid, tier, level="proof"):
        self.pid, self.tier, self.level = pid, tier, level
        self.t0 = time.time()
        self.obl = []          # dicts: id, function, layer, backend, status, seconds, where, detail
        self.bounded = []      # dicts: function, bound, obligations, discharged
        self.assumptions = []
        self.trusted = []
        self.rules = {}
        self.functions = set()
        self.vacuity = []
        self.cmds = []
        self.undecided = []
        self.violations = []   # (oid, replay_path, suffix)
        self.known_hit = []
        self.notes = []
        self.dropped = []
        self.solver_seconds = 0.0
        self.known = Known()
        self.extra = {}

    # -- recording
    def add(self, oid, function, layer, backend, status, seconds=0.0, where="", detail="", bounded=None):
        """status in discharged / failed / undecided.  bounded: text of the bound if this
        obligation was only discharged inside a bound (never counted as proved)."""
        self.obl.append(dict(id=oid, function=function, layer=layer, backend=backend, status=status,
                             seconds=round(seconds, 3), where=where, detail=detail, bounded=bounded))
        self.functions.add(function)
        self.solver_seconds += seconds
        if status == "undecided":
            self.undecided.append("%s: %s" % (oid, detail))

    def assume(self, text):
        if text not in self.assumptions:
            self.assumptions.append(text)

    def trust(self, text):
        if text not in self.trusted:
            self.trusted.append(text)

    def rule(self, name, n):
        self.rules[name] = self.rules.get(name, 0) + n

    def cmd(self, text):
        if text not in self.cmds and len(self.cmds) < 12:
            self.cmds.append(text)

    def undecide(self, text):
        self.undecided.append(text)

    def violation(self, oid, replay_path, nofail=False):
        self.violations.append((oid, replay_path, nofail))

    # -- finishing
    def failed(self):
        return [o for o in self.obl if o["status"] == "failed"]

    # -- compact obligation records: the evidence file must stay small (a few hundred kB), so obligations are summarised per job
    #    (id without its last two components) and listed individually only when they are few or not discharged
    def _groups(self):
        g = {}
        for o in self.obl:
            parts = o["id"].split(".")
            key = ".".join(parts[:-2]) if (o["layer"] == "L1" and len(parts) > 4) else (".".join(parts[:3]) if len(parts) > 3 else o["id"])
            e = g.setdefault(key, dict(group=key, function=o["function"], layer=o["layer"], backends=[], obligations=0, discharged=0, failed=0,
                                       undecided=0, bounded=0, seconds=0.0))
            e["obligations"] += 1
            e[o["status"]] = e.get(o["status"], 0) + 1
            if o["bounded"]:
                e["bounded"] += 1
            if o["backend"] not in e["backends"] and len(e["backends"]) < 6:
                e["backends"].append(o["backend"])
            e["seconds"] = round(e["seconds"] + o["seconds"], 3)
        out = sorted(g.values(), key=lambda e: e["group"])
        if len(out) > 1500:      # still too many jobs: merge by the first two components
            g2 = {}
            for e in out:
                k2 = ".".join(e["group"].split(".")[:2])
                f = g2.setdefault(k2, dict(group=k2 + ".*", function="(several)", layer=e["layer"], backends=[], obligations=0, discharged=0, failed=0,
                                           undecided=0, bounded=0, seconds=0.0))
                for k in ("obligations", "discharged", "failed", "undecided", "bounded"):
                    f[k] += e[k]
                f["seconds"] = round(f["seconds"] + e["seconds"], 3)
                for b in e["backends"]:
                    if b not in f["backends"] and len(f["backends"]) < 6:
                        f["backends"].append(b)
            out = sorted(g2.values(), key=lambda e: e["group"])
        return out

    def _log(self):
        rows = [[o["id"], o["status"], o["seconds"], o["backend"]] for o in self.obl]
        if len(rows) <= 1200:
            return rows
        bad = [r for r in rows if r[1] != "discharged"][:400]
        step = max(1, len(rows) // 600)
        return bad + rows[::step][:600]

    def finish(self, explanation=""):
        wall = time.time() - self.t0
        proved = [o for o in self.obl if not o["bounded"]]
        nb = [o for o in self.obl if o["bounded"]]
        n_obl = len(proved)
        n_dis = sum(1 for o in proved if o["status"] == "discharged")
        # known findings
        known_ids = set(o["id"] for o in self.failed() if self.known.match(self.pid, o["id"]))
        if known_ids:
            # obligations that fail exactly as a recorded finding are reported separately (coverage.known_findings_matched);
            # they are neither counted as discharged nor hidden
            proved = [o for o in proved if o["id"] not in known_ids]
            n_obl = len(proved)
            n_dis = sum(1 for o in proved if o["status"] == "discharged")
            self.extra["obligations_failing_as_known_findings"] = len(known_ids)
        unknown_fail = []
        for o in self.failed():
            k = self.known.match(self.pid, o["id"])
            if k:
                self.known_hit.append((o["id"], k[1]))
            else:
                unknown_fail.append(o)
        reported = set(v[0] for v in self.violations)
        for o in unknown_fail:
            if o["id"] not in reported:
                # a failed obligation without an explicit replay: write a replay file naming it
                path = write_replay(self.pid, o["id"], dict(obligation=o, verifier_output=o.get("detail", ""),
                                                         reproduced=None))
                self.violations.append((o["id"], path, True))
        # filter violations that are known findings
        vio = [v for v in self.violations if not self.known.match(self.pid, v[0])]
        byf = {}
        for oid, txt in self.known_hit:
            byf.setdefault(txt, [])
            if oid not in byf[txt]:
                byf[txt].append(oid)
        for txt, oids in byf.items():
            print("KNOWN-FINDING: property=%s %s [%d failing obligation(s): %s%s]" %
                  (self.pid, txt, len(oids), ", ".join(oids[:3]), ", ..." if len(oids) > 3 else ""))
        for oid, path, nofail in vio:
            print("VIOLATION property=%s replay=%s obligation=%s%s" %
                  (self.pid, path, oid, " no-failing-input-found" if nofail else ""))
        samples = []
        step = max(1, len(self.obl) // 12)
        for o in self.obl[::step][:14]:
            samples.append({k: o[k] for k in ("id", "function", "layer", "backend", "status", "seconds", "where")})
        for o in self.failed()[:6]:
            samples.append({k: o[k] for k in ("id", "function", "layer", "backend", "status", "seconds", "where", "detail")})
        cov = dict(
            obligations=n_obl, discharged=n_dis,
            bounded_obligations=len(nb), bounded_discharged=sum(1 for o in nb if o["status"] == "discharged"),
            checker_cmd=" ;; ".join(self.cmds) or "n/a",
            trusted_base=self.trusted,
            samples=samples,
            functions_under_contract=sorted(self.functions),
            bounded=self.bounded + ([dict(obligations=len(nb), discharged=sum(1 for o in nb if o["status"] == "discharged"),
                                          note="obligations discharged only inside a stated bound; not counted in obligations/discharged",
                                          bounds=sorted(set(o["bounded"] for o in nb)))] if nb else []),
            undecided=self.undecided[:50],
            extraction_rules_fired=self.rules,
            what_extraction_drops=self.dropped,
            vacuity_checks=self.vacuity[:40],
            solver_seconds=round(self.solver_seconds, 2),
            known_findings_matched=[dict(obligation=a, finding=b) for a, b in self.known_hit],
            obligation_groups=self._groups(),
            obligation_log=self._log(),
            repo_head=repo_head(),
            explanation=explanation or "contract obligations generated from /repo's working tree on this run; "
                                        "every obligation is a CBMC property result (DFCC contract instrumentation) or an SMT query; see DESIGN.md",
            notes=self.notes,
        )
        cov.update(self.extra)
        ev = dict(property_id=self.pid, tier=self.tier, seed=SEED, level=self.level, coverage=cov,
                  assumptions=self.assumptions, wall_s=round(wall, 2), violations=len(vio))
        os.makedirs(EVDIR, exist_ok=True)
        with open(os.path.join(EVDIR, self.pid + ".json"), "w") as f:
            json.dump(ev, f, indent=1)
        nfail = len(self.failed())
        print("%s [%s]: %d obligations, %d discharged, %d failed (%d known), %d bounded, %d undecided, %.1fs" %
              (self.pid, self.tier, n_obl, n_dis, nfail, nfail - len(unknown_fail), len(nb), len(self.undecided), wall))
        if vio:
            return 1
        if self.undecided:
            for u in self.undecided[:20]:
                print("UNDECIDED: " + u, file=sys.stderr)
            return 2
        if n_obl == 0 and not (self.level != "proof" and nb and all(o["status"] == "discharged" for o in nb)):
            print("UNDECIDED: no obligations generated", file=sys.stderr)
            return 2
        return 0


def write_replay(pid, oid, data):
    d = os.path.join(BUILD, "replay", pid)
    os.makedirs(d, exist_ok=True)
    safe = re.sub(r"[^A-Za-z0-9_.-]+", "_", oid)[:120]
    path = os.path.join(d, safe + ".json")
    data = dict(data)
    data["property"] = pid
    data["obligation_id"] = oid
    with open(path, "w") as f:
        json.dump(data, f, indent=1, default=str)
    return path
