#!/usr/bin/env python3
"""debug helper: run one DFCC job from a template and list the non-successful properties
usage: dbg.py <template.c> <harness> <enforce|-> [replace,replace..] [unwind] [D1,D2 defines]"""
import os, sys
sys.path.insert(0, os.path.dirname(os.path.abspath(__file__)))
import core, extract, l1
tpl, harness, enforce = sys.argv[1:4]
rep = sys.argv[4].split(",") if len(sys.argv) > 4 and sys.argv[4] not in ("", "-") else []
unw = int(sys.argv[5]) if len(sys.argv) > 5 and sys.argv[5] not in ("", "-") else None
defs = sys.argv[6].split(",") if len(sys.argv) > 6 else []
loops = "LOOPS" in os.environ
inc = [os.path.join(core.REPO, "include", "SQuIDS"), os.path.join(core.VERIF, "spec")]
bdir = os.path.join(core.VERIF, ".build", "dbg"); os.makedirs(bdir, exist_ok=True)
ct = extract.instantiate(open(tpl).read())
j = l1.Job("dbg_" + harness, ct, harness, enforce=None if enforce == "-" else enforce, replace=rep, unwind=unw, includes=inc, defines=defs,
           loops=loops, sat_solver=os.environ.get("SOLVER"), object_bits=int(os.environ.get("OBJBITS","10")), unwindset=[x for x in os.environ.get("UWS","").split(",") if x], timeout=int(os.environ.get("TMO", "300")), slice_formula="SLICE" in os.environ)
r = l1.run_job(j, bdir)
print("error:", r.error, " seconds: %.1f" % r.seconds, " props:", len(r.props))
nbad = 0
for p in r.props:
    if p.status != "SUCCESS" and "REACH" not in p.desc:
        nbad += 1
        if nbad > int(os.environ.get("MAXBAD", "25")):
            continue
        print(p.status, p.name, "|", p.desc[:160], "|", p.loc)
        if p.trace and "TRACE" in os.environ:
            print("   ", l1.trace_inputs(p.trace, os.environ["TRACE"]))

print("non-successful:", nbad)
