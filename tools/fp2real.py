"""Theory swap (DESIGN 4.1): CBMC `--cvc5 --outfile` SMT-LIB over FloatingPoint(11,53) -> the same
verification condition with machine arithmetic treated as mathematical (Real).

Aborts (Undecided) on every FP construct it does not know: fp.rem/sqrt/fma/roundToIntegral,
NaN/Inf literals, conversions from symbolic bit-vectors, rounding modes other than RNE."""
import re
from fractions import Fraction

from core import Undecided


def tokenize(s):
    i, n, out = 0, len(s), []
    while i < n:
        c = s[i]
        if c in ' \t\r\n':
            i += 1
        elif c == ';':
            while i < n and s[i] != '\n':
                i += 1
        elif c in '()':
            out.append(c)
            i += 1
        elif c == '|':
            j = s.index('|', i + 1)
            out.append(s[i:j + 1])
            i = j + 1
        elif c == '"':
            j = s.index('"', i + 1)
            out.append(s[i:j + 1])
            i = j + 1
        else:
            j = i
            while j < n and s[j] not in ' \t\r\n()':
                j += 1
            out.append(s[i:j])
            i = j
    return out


def parse(toks):
    stack = [[]]
    for t in toks:
        if t == '(':
            stack.append([])
        elif t == ')':
            x = stack.pop()
            stack[-1].append(x)
        else:
            stack[-1].append(t)
    if len(stack) != 1:
        raise Undecided("fp2real: unbalanced SMT text")
    return stack[0]


def dump(x):
    if isinstance(x, list):
        return '(' + ' '.join(dump(y) for y in x) + ')'
    return x


def fpconst(s, e, m):
    if not (s.startswith('#b') and e.startswith('#b') and m.startswith('#b')):
        raise Undecided("fp2real: non-binary fp literal")
    sb, eb, mb = int(s[2:], 2), int(e[2:], 2), int(m[2:], 2)
    if len(e) - 2 != 11 or len(m) - 2 != 52:
        raise Undecided("fp2real: fp literal of unexpected width")
    if eb == 0x7ff:
        raise Undecided("fp2real: inf/nan literal")
    if eb == 0:
        v = Fraction(mb, 2 ** 52) * Fraction(2) ** (-1022)
    else:
        v = (1 + Fraction(mb, 2 ** 52)) * Fraction(2) ** (eb - 1023)
    return -v if sb else v


def nice(v):
    """nearest-double of a small rational -> that rational (checked bit-identical)"""
    f = float(v)
    for q in range(1, 121):
        p = round(f * q)
        if p != 0 and float(Fraction(p, q)) == f:
            return Fraction(p, q)
    return v


def rat(v):
    v = nice(v)
    s = '%d.0' % abs(v.numerator) if v.denominator == 1 else '(/ %d.0 %d.0)' % (abs(v.numerator), v.denominator)
    return '(- %s)' % s if v < 0 else s


def bvconst(x):
    """value and width of a constant bit-vector term built from literals with bvadd/bvsub/bvmul/bvneg, else None"""
    if isinstance(x, list) and len(x) == 3 and x[0] == '_' and isinstance(x[1], str) and x[1].startswith('bv') and x[1][2:].isdigit():
        return int(x[1][2:]), int(x[2])
    if isinstance(x, str) and x.startswith('#b'):
        return int(x[2:], 2), len(x) - 2
    if isinstance(x, str) and x.startswith('#x'):
        return int(x[2:], 16), 4 * (len(x) - 2)
    if isinstance(x, list) and x and x[0] in ('bvadd', 'bvsub', 'bvmul') and len(x) >= 3:
        vs = [bvconst(y) for y in x[1:]]
        if any(v is None for v in vs):
            return None
        w = vs[0][1]
        acc = vs[0][0]
        for v, _ in vs[1:]:
            acc = acc + v if x[0] == 'bvadd' else (acc - v if x[0] == 'bvsub' else acc * v)
        return acc % (1 << w), w
    if isinstance(x, list) and len(x) == 2 and x[0] == 'bvneg':
        v = bvconst(x[1])
        return None if v is None else ((-v[0]) % (1 << v[1]), v[1])
    return None


BIN = {'fp.add': '+', 'fp.sub': '-', 'fp.mul': '*', 'fp.div': '/'}
CMP = {'fp.eq': '=', 'fp.lt': '<', 'fp.leq': '<=', 'fp.gt': '>', 'fp.geq': '>='}


class Swap:
    def __init__(self, u2r=False):
        self.divisors = []   # terms appearing as denominators (each needs a separate non-zero obligation)
        self.u2r = u2r       # opt-in: conversion of a NON-constant 32-bit unsigned to double becomes the uninterpreted sq_u2r (axioms: u2r_axioms)
        self.u2r_args = []

    def tr(self, x):
        if isinstance(x, list):
            if len(x) == 4 and x[0] == '_' and x[1] == 'FloatingPoint':
                if x[2:] != ['11', '53']:
                    raise Undecided("fp2real: non-double FP sort")
                return 'Real'
            if x and x[0] == 'fp' and len(x) == 4:
                return rat(fpconst(*x[1:]))
            if len(x) == 4 and x[0] == '_' and x[1] in ('+zero', '-zero'):
                return '0.0'
            if len(x) == 4 and x[0] == '_' and x[1] in ('+oo', '-oo', 'NaN'):
                raise Undecided("fp2real: inf/nan literal")
            if x and isinstance(x[0], str):
                h = x[0]
                if h in BIN:
                    if x[1] not in ('roundNearestTiesToEven', 'RNE') and not (isinstance(x[1], str) and 'rounding_mode' in x[1]):
                        # CBMC passes the rounding-mode symbol; it is defined as RNE (bv0) at the top of the file
                        pass
                    a, b = self.tr(x[2]), self.tr(x[3])
                    if h == 'fp.div':
                        self.divisors.append(b)
                    return [BIN[h], a, b]
                if h in CMP:
                    return [CMP[h]] + [self.tr(y) for y in x[1:]]
                if h == 'fp.neg':
                    return ['-', self.tr(x[1])]
                if h == 'fp.abs':
                    a = self.tr(x[1])
                    return ['ite', ['>=', a, '0.0'], a, ['-', a]]
                if h in ('fp.isNaN', 'fp.isInfinite'):
                    return 'false'
                if h == 'fp.isZero':
                    return ['=', self.tr(x[1]), '0.0']
                if h == 'fp.isNegative':
                    return ['<', self.tr(x[1]), '0.0']
                if h == 'fp.isPositive':
                    return ['>', self.tr(x[1]), '0.0']
                if h.startswith('fp.'):
                    raise Undecided('fp2real: unhandled ' + h)
            if x and isinstance(x[0], list) and x[0][:2] == ['_', 'to_fp']:
                arg = x[-1]
                c = bvconst(arg)
                if c is not None:
                    v, w = c
                    if v >= 2 ** (w - 1):
                        v -= 2 ** w
                    return rat(Fraction(v))
                raise Undecided('fp2real: to_fp conversion of a non-constant: ' + dump(x)[:100])
            if x and isinstance(x[0], list) and x[0][:2] == ['_', 'to_fp_unsigned']:
                arg = x[-1]
                c = bvconst(arg)
                if c is not None:
                    return rat(Fraction(c[0]))
                if self.u2r:
                    a = self.tr(arg)
                    if dump(a) not in self.u2r_args:
                        self.u2r_args.append(dump(a))
                    return ['sq_u2r', a]
                raise Undecided('fp2real: to_fp_unsigned conversion of a non-constant: ' + dump(x)[:100])
            return [self.tr(y) for y in x]
        return x


def u2r_axioms(args):
    """Ground instances, for the argument terms that occur, of facts true of the conversion unsigned(32 bit) -> real (value preserving): non-negative,
    zero iff zero, one at one, strictly monotone, successor adds one (no wrap).  sq_u2r is otherwise uninterpreted, so whatever is proved holds for the
    real conversion; an argument of another width is a sort error in the solver -> undecided."""
    ax = []
    for s in args:
        ax.append('(assert (>= (sq_u2r %s) 0.0))' % s)
        ax.append('(assert (= (= %s (_ bv0 32)) (= (sq_u2r %s) 0.0)))' % (s, s))
        ax.append('(assert (=> (= %s (_ bv1 32)) (= (sq_u2r %s) 1.0)))' % (s, s))
        for t in args:
            if s != t:
                ax.append('(assert (= (bvult %s %s) (< (sq_u2r %s) (sq_u2r %s))))' % (s, t, s, t))
                ax.append('(assert (=> (and (= %s (bvadd %s (_ bv1 32))) (not (= %s (_ bv4294967295 32)))) (= (sq_u2r %s) (+ (sq_u2r %s) 1.0))))' % (t, s, s, t, s))
    return ax


def swap_text(src, u2r=False):
    """returns (forms as text list without check-sat/get-value/exit, Swap object)"""
    sw = Swap(u2r)
    out = []
    for form in parse(tokenize(src)):
        if isinstance(form, list) and form:
            if form[0] == 'set-logic':
                out.append('(set-logic ALL)')
                continue
            if form[0] in ('get-value', 'exit', 'check-sat', 'set-info'):
                continue
            if form[0] == 'set-option':
                continue
        out.append(dump(sw.tr(form)))
    if sw.u2r_args:
        k = 1 if out and out[0].startswith('(set-logic') else 0
        out.insert(k, '(declare-fun sq_u2r ((_ BitVec 32)) Real)')
        out.extend(u2r_axioms(sw.u2r_args))
    return out, sw


def uf_args(forms_text, fname):
    """distinct argument texts of applications of an uninterpreted unary function"""
    args = []
    rx = re.compile(r'\(' + re.escape(fname) + r' ')
    for t in forms_text:
        for m in rx.finditer(t):
            i = m.end()
            # parse one term starting at i
            if t[i] == '(':
                depth, j = 0, i
                while True:
                    if t[j] == '(':
                        depth += 1
                    elif t[j] == ')':
                        depth -= 1
                        if depth == 0:
                            break
                    elif t[j] == '|':
                        j = t.index('|', j + 1)
                    j += 1
                a = t[i:j + 1]
            elif t[i] == '|':
                j = t.index('|', i + 1)
                a = t[i:j + 1]
            else:
                j = i
                while t[j] not in ' )':
                    j += 1
                a = t[i:j]
            if a not in args:
                args.append(a)
    return args
