#!/usr/bin/env python3
"""Runs the checks against the seeded breaking changes (/verif/seeded/<name>/patch.diff) on a scratch copy of /repo
(outside /repo and /verif, removed afterwards) and writes /verif/seeded/RESULTS.json.
usage: run_seeds.py [name ...]     (default: all)"""
import json, os, shutil, subprocess, sys, time
V = os.path.dirname(os.path.dirname(os.path.abspath(__file__)))
# which checks are expected to see a seed (the property it was written for first)
ALSO = {"C04_d": ["C10"], "C09_d": ["C02"], "C14_c": ["C13", "C15"], "C14_d": ["C15"], "C01_c": ["C14"], "C08_c": ["C09"], "C08_d": ["C15"], "C15_c": ["C08"],
        "C15_d": ["C14", "C16"], "C10_c": ["C04"],
        "C02_a": ["C09"], "C02_b": ["C09"], "C03_a": ["C09"], "C14_a": ["C09"], "C08_b": ["C09"], "C15_a": ["C09", "C16"], "C05_b": ["C11"],
        "C13_a": ["C15"], "C16_a": ["C15", "C13"], "C11_f": ["C05"], "C15_f": ["C14", "C13"]}
def sh(cmd, **kw): return subprocess.run(cmd, shell=True, capture_output=True, text=True, **kw)
def main():
    names = sys.argv[1:] or sorted(d for d in os.listdir(os.path.join(V, "seeded")) if os.path.isdir(os.path.join(V, "seeded", d)))
    claimed = set(c["property_id"] for c in json.load(open(os.path.join(V, "MANIFEST.json")))["checks"])
    scratch = "/tmp/seedrepo_%d" % os.getpid()
    sh("rm -rf %s; git -C /repo worktree prune; %s/tools/mkworktree.sh %s" % (scratch, V, scratch))
    resf = os.path.join(V, "seeded", "RESULTS.json")
    results = json.load(open(resf)) if os.path.exists(resf) else {}
    env = dict(os.environ, VERIF_REPO=scratch, VERIF_BUILD="/tmp/seedbuild_%d" % os.getpid(), VERIF_EVIDENCE_DIR="/tmp/seedev_%d" % os.getpid())
    for n in names:
        pdir = os.path.join(V, "seeded", n)
        r = sh("git -C %s reset -q --hard && git -C %s apply %s/patch.diff" % (scratch, scratch, pdir))
        if r.returncode != 0:
            results[n] = dict(error="patch does not apply to HEAD " + sh("git -C /repo rev-parse --short HEAD").stdout.strip())
            json.dump(results, open(resf, "w"), indent=1)
            print(n, "patch does not apply", flush=True)
            continue
        entry = dict(repo_head=sh("git -C /repo rev-parse --short HEAD").stdout.strip(), checks={})
        for pid in [n[:3]] + ALSO.get(n, []):
            if pid not in claimed:
                entry["checks"][pid] = dict(rc=None, note="property not claimed"); continue
            t0 = time.time()
            r = subprocess.run([os.path.join(V, "check"), pid], capture_output=True, text=True, env=env, cwd=V)
            vio = [l.split("obligation=")[-1] for l in r.stdout.split("\n") if l.startswith("VIOLATION")]
            entry["checks"][pid] = dict(rc=r.returncode, seconds=round(time.time() - t0), violations=vio[:12], n_violations=len(vio),
                                        summary=[l for l in r.stdout.split("\n") if l.startswith(pid + " [")][-1:],
                                        undecided=[l for l in r.stderr.split("\n") if l.startswith("UNDECIDED")][:3])
        entry["detected_by"] = [p for p, c in entry["checks"].items() if c.get("rc") == 1]
        results = json.load(open(resf)) if os.path.exists(resf) else {}      # re-read: several runners may work side by side
        results[n] = entry
        json.dump(results, open(resf, "w"), indent=1)
        print(n, {p: c.get("rc") for p, c in entry["checks"].items()}, flush=True)
    sh("git -C /repo worktree remove --force %s; rm -rf %s %s %s" % (scratch, scratch, env["VERIF_BUILD"], env["VERIF_EVIDENCE_DIR"]))
if __name__ == "__main__":
    main()
