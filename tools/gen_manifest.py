#!/usr/bin/env python3
"""Regenerates /verif/MANIFEST.json from the table below (claimed checks) + properties.jsonl."""
import json
import os

V = os.path.dirname(os.path.dirname(os.path.abspath(__file__)))
TB = ("CBMC 6.11 (symex, DFCC contract instrumentation, SAT back end); tools/extract.py must-fire rewrite rules; "
      "assumed contracts of GSL/libstdc++/libm as listed in the evidence file")

CHECKS = {
 "C17": dict(
    category="proof",
    text="Get_i: DFCC contract with loop contract, grid length symbolic up to 10^6 (unbounded in the loop), every xi: error iff outside "
         "[x_first,x_last], else i<=nx-2 and x_i<=xi<=x_{i+1}. Set_xrange(vector): stores exactly its input, rejects wrong size/unsorted, "
         "stored grid non-decreasing. Set_xrange(a,b,scale): rejection conditions, nothing written on rejection, frame, termination "
         "(unbounded nx). Node values of the (a,b,scale) overload: real-arithmetic VC per nx<=8 (bounded, not counted as proved).",
    note="grid values not NaN; libm exp/log monotone (trusted); IEEE rounding of the node formula not modelled (ends 'within a few ulp' is trusted); "
         "std::is_sorted, vector copy-assignment assumed contracts",
    technique="CBMC DFCC function+loop contracts on mechanically extracted C",
    ref="8 C17"),
}


def main():
    props = [json.loads(l) for l in open(os.path.join(V, "properties.jsonl"))]
    na_reason = {}
    p = os.path.join(V, "tools", "not_applicable.json")
    if os.path.exists(p):
        na_reason = json.load(open(p))
    checks = []
    for pr in props:
        pid = pr["id"]
        if pid not in CHECKS:
            continue
        c = CHECKS[pid]
        checks.append(dict(
            property_id=pid,
            quick_cmd="./check %s --tier quick" % pid,
            thorough_cmd="./check %s --tier thorough" % pid,
            evidence_file="/verif/evidence/%s.json" % pid,
            replay_cmd_template="./check %s --replay {path}" % pid,
            engine="squids-contracts",
            level_claimed=dict(category=c["category"], text=c["text"], design_ref="DESIGN.md section " + c["ref"]),
            level_note=c["note"] + " | trusted base: " + TB,
            technique=c["technique"]))
    m = dict(
        version=1,
        setup_cmd="true",
        hooks=dict(guard="SQUIDS_VERIF",
                   enable="no source hooks are needed: the checks extract the functions from /repo's working tree on every run",
                   baseline_off_cmd="cd /repo && make && cd test && ./run_tests",
                   source_commits=[], add_only=True),
        engines=[dict(name="squids-contracts", path="/verif/check", serves_properties=sorted(CHECKS),
                      kind_free_text="contract-based deductive verification: mechanical C extraction + CBMC DFCC contracts (Layer 1) "
                                     "+ real-arithmetic VCs from cbmc --outfile discharged by z3/cvc5 (Layer 2)")],
        checks=checks,
        notes="see DESIGN.md; known_findings.txt lists repaired defects (fix: commits in /repo) and recorded findings",
        not_applicable=[dict(property_id=pr["id"], reason=na_reason.get(pr["id"], "check not implemented yet (build in progress; DESIGN.md section 11 gives the order)"))
                        for pr in props if pr["id"] not in CHECKS])
    json.dump(m, open(os.path.join(V, "MANIFEST.json"), "w"), indent=1)


if __name__ == "__main__":
    main()
