"""Native replay: programs in /verif/replay/*.cpp compiled against /repo's *working tree*
(DESIGN 5).  The library objects are rebuilt from /repo/src on every use."""
import json
import os
import threading

import core

_lock = threading.Lock()
_lock2 = threading.Lock()
SRCS = ["SUNalg.cpp", "SQuIDS.cpp", "const.cpp", "MatrixExp.cpp"]
FLAGS = ["-std=c++11", "-g", "-O1", "-fno-omit-frame-pointer", "-fsanitize=address,undefined",
         "-fno-sanitize-recover=undefined", "-Wno-abi", "-w"]


def build_lib(extra_defs=()):
    """compile /repo/src/*.cpp with sanitizers into .build/native/<tag>/; returns list of objects"""
    tag = "san" + "".join("_" + d for d in extra_defs)
    d = os.path.join(core.BUILD, "native", tag)
    with _lock:
        os.makedirs(d, exist_ok=True)
        def cc(src):
            o = os.path.join(d, src.replace(".cpp", ".o"))
            sp = os.path.join(core.REPO, "src", src)
            stamp = o + ".stamp"
            key = _tree_key()
            if os.path.exists(o) and os.path.exists(stamp) and open(stamp).read() == key:
                return o
            cmd = ["g++"] + FLAGS + ["-D" + x for x in extra_defs] + ["-I", os.path.join(core.REPO, "include"), "-c", sp, "-o", o]
            rc, out, err, s = core.run(cmd, timeout=900, mem_gb=None)
            if rc != 0:
                raise core.Undecided("native build of %s failed: %s" % (src, (err or "")[-800:]))
            open(stamp, "w").write(key)
            return o
        return core.pmap(cc, SRCS, 4)


def _tree_key():
    """content key of the repo's include+src trees (so edits to /repo force a rebuild)"""
    import hashlib
    h = hashlib.sha1()
    for root in ("src", "include"):
        for dp, dn, fn in sorted(os.walk(os.path.join(core.REPO, root))):
            for f in sorted(fn):
                p = os.path.join(dp, f)
                h.update(p.encode())
                with open(p, "rb") as fh:
                    h.update(fh.read())
    return h.hexdigest()


_progs = {}


def build_prog(name, extra_defs=()):
    k = (name, tuple(extra_defs))
    with _lock2:
        if k not in _progs:
            _progs[k] = _build_prog(name, extra_defs)
        return _progs[k]


def _build_prog(name, extra_defs=()):
    objs = build_lib(extra_defs)
    d = os.path.join(core.BUILD, "native")
    exe = os.path.join(d, name + "".join("_" + x for x in extra_defs))
    src = os.path.join(core.VERIF, "replay", name + ".cpp")
    cmd = ["g++"] + FLAGS + ["-D" + x for x in extra_defs] + ["-I", os.path.join(core.REPO, "include"), src] + objs + \
          ["-lgsl", "-lgslcblas", "-lm", "-lpthread", "-o", exe]
    rc, out, err, s = core.run(cmd, timeout=600, mem_gb=None)
    if rc != 0:
        raise core.Undecided("native build of replay %s failed: %s" % (name, (err or "")[-1500:]))
    return exe


def flat(data):
    """JSON witness -> flat token text `key n v1 .. vn` read by the C++ side"""
    out = []
    for k, v in data.items():
        if isinstance(v, (list, tuple)):
            out.append("%s %d %s" % (k, len(v), " ".join(_tok(x) for x in v)))
        elif isinstance(v, dict):
            continue
        else:
            out.append("%s 1 %s" % (k, _tok(v)))
    return "\n".join(out) + "\n"


def _tok(x):
    if isinstance(x, bool):
        return "1" if x else "0"
    s = str(x)
    s = s.rstrip("ulUL") if s and s[0].isdigit() and not any(c in s for c in ".eExXnif") else s
    if s in ("TRUE", "true"):
        return "1"
    if s in ("FALSE", "false"):
        return "0"
    if s.endswith("f") and not s.startswith("0x") and s[:-1].replace(".", "").replace("-", "").isdigit():
        s = s[:-1]
    return s.replace(" ", "_") or "0"


def run_replay(pid, path, prog=None, extra_defs=(), key="witness"):
    """returns True if the native program reproduced the violation (exit code 1 + 'REPRODUCED')"""
    data = json.load(open(path))
    w = data.get(key)
    if w is None:
        return False
    exe = build_prog(prog or pid, extra_defs)
    wf = path + ".in"
    open(wf, "w").write(flat(w))
    env = dict(os.environ, ASAN_OPTIONS="detect_leaks=1:abort_on_error=0:exitcode=97", UBSAN_OPTIONS="print_stacktrace=1")
    rc, out, err, s = core.run([exe, wf], timeout=120, mem_gb=None, env=env)
    data["native_replay"] = dict(rc=rc, stdout=(out or "")[-3000:], stderr=(err or "")[-3000:])
    json.dump(data, open(path, "w"), indent=1, default=str)
    return "REPRODUCED" in (out or "") or rc in (1, 97)
