"""Layer 2 (DESIGN 4): functional postconditions in real arithmetic.

C harness (extracted kernel + spec) --cbmc --cvc5 --outfile--> SMT-LIB (FP) --fp2real--> SMT-LIB (Real)
--> z3 4.8 / cvc5 portfolio.  `unsat` = obligation discharged; `sat` = counterexample (model read from z3)."""
import math
import os
import re
import subprocess
import time

import core
import fp2real
from core import ExtractionError, Undecided
from extract import strip_comments

ZERO_AXIOM = False   # sin 0 = 0, cos 0 = 1 instances: only for the t=0 obligations
SIN = "__CPROVER_uninterpreted_sin"
COS = "__CPROVER_uninterpreted_cos"

# --- R3: closed table of the sqrt literals that occur in SU_inc (value = product of symbols) ------------
SQ = {'2': 'S2', '3': 'S3', '3.': 'S3', '5': 'S5', '6': '(S2*S3)', '10': '(S2*S5)', '15': '(S3*S5)', '30': '(S2*S3*S5)',
      '0.4': '(S2*S5/5)', '1.5': '(S2*S3/2)', '1.6666666666666667': '(S3*S5/3)', '0.6': '(S3*S5/5)',
      '2.5': '(S2*S5/2)', '0.6666666666666666': '(S2*S3/3)'}
INV = {'2': '(S2/2)', '3': '(S3/3)', '3.': '(S3/3)', '5': '(S5/5)', '6': '(S2*S3/6)', '10': '(S2*S5/10)', '15': '(S3*S5/15)',
       '30': '(S2*S3*S5/30)'}


def validate_tables():
    """each row natively: sqrt(lit) equals the product to 2 ulp"""
    env = dict(S2=math.sqrt(2), S3=math.sqrt(3), S5=math.sqrt(5))
    n = 0
    for k, e in SQ.items():
        v = eval(e, {}, env)
        if abs(v - math.sqrt(float(k))) > 4e-16 * v:
            raise Undecided("R3 table row sqrt(%s) wrong" % k)
        n += 1
    for k, e in INV.items():
        v = eval(e, {}, env)
        if abs(v - 1 / math.sqrt(float(k))) > 4e-16 * v:
            raise Undecided("R3 table row 1/sqrt(%s) wrong" % k)
        n += 1
    return n


def r3(text, fired, ctx):
    """sqrt(<literal>) -> symbol products; result is division-free except for constant divisors"""
    def need(k, tab):
        if k not in tab:
            raise ExtractionError("R3: unknown sqrt literal %s in %s" % (k, ctx))
        return tab[k]
    n0 = len(re.findall(r'\bsqrt\s*\(', text))
    cnt = [0]

    def a(m):
        cnt[0] += 1
        return '*' + need(m.group(2), INV) + '/' + m.group(1)
    text = re.sub(r'/\s*\(\s*([0-9.]+)\s*\*\s*sqrt\(([0-9.]+)\)\s*\)', a, text)

    def b(m):
        cnt[0] += 1
        return '*' + need(m.group(1), INV)
    text = re.sub(r'/\s*sqrt\(([0-9.]+)\)', b, text)

    def c(m):
        cnt[0] += 1
        return need(m.group(1), SQ)
    text = re.sub(r'\bsqrt\(([0-9.]+)\)', c, text)
    if 'sqrt' in text:
        raise ExtractionError("R3: sqrt remains in %s" % ctx)
    if cnt[0] != n0:
        raise ExtractionError("R3: %d sqrt occurrences but %d rewrites in %s" % (n0, cnt[0], ctx))
    fired["R3.sqrt"] = fired.get("R3.sqrt", 0) + n0
    return text


R2_RX = re.compile(r'\(?\s*\b(suv_new|suv3|target)\s*\)?\s*\.\s*components\s*\[([^\]]+)\]\s*\+=\s*([^;]+);')


def prep_su_inc_l1(bdir, fired, sub="SU_inc_l1"):
    """Layer-1 copies of the generated kernels: R1 + R2 (target stores through SQ_ACC).  Must-match-count: in every file that
    mentions a wrapped target, the number of `+=` statements on it, of R2 substitutions and of `;`-terminated target statements agree,
    and no other reference to the target remains (the kernels touch their target only through the wrapper)."""
    src = os.path.join(core.REPO, "include", "SQuIDS", "SU_inc")
    dst = os.path.join(bdir, sub)
    os.makedirs(dst, exist_ok=True)
    problems = []
    for fn in sorted(os.listdir(src)):
        if not (fn.endswith(".txt") or fn.endswith(".h")) or fn in ("Dnumbers.txt", "Fnumbers.txt"):
            continue
        text = kernel(fn, fired, False) if fn != "dimension.h" else core.repo_read(os.path.join("include", "SQuIDS", "SU_inc", fn))
        n_stmt = len(re.findall(r'\b(suv_new|suv3)\s*\)?\s*\.\s*components\s*\[', text))
        text, n = R2_RX.subn(r'SQ_ACC(\1,\2,\3);', text)
        if n != n_stmt:
            raise ExtractionError("R2: %d target statements but %d substitutions in %s" % (n_stmt, n, fn))
        if n:
            fired["R2.acc"] = fired.get("R2.acc", 0) + n
            rest = re.sub(r'SQ_ACC\((suv_new|suv3),', 'SQ_ACC(#,', text)
            if re.search(r'\b(suv_new|suv3)\b', rest) and not fn.endswith("Select.txt"):
                problems.append(fn)
        with open(os.path.join(dst, fn), "w") as f:
            f.write(text)
    return dst, problems


def prep_su_inc(bdir, fired, l2=True, sub="SU_inc_l2"):
    """rewritten copies of every generated file of /repo/include/SQuIDS/SU_inc (R1, and R3 for Layer 2)"""
    src = os.path.join(core.REPO, "include", "SQuIDS", "SU_inc")
    dst = os.path.join(bdir, sub)
    os.makedirs(dst, exist_ok=True)
    n = 0
    for fn in sorted(os.listdir(src)):
        if fn.endswith(".txt") or fn.endswith(".h"):
            if fn in ("Dnumbers.txt", "Fnumbers.txt"):
                continue
            if fn == "dimension.h":
                text = core.repo_read(os.path.join("include", "SQuIDS", "SU_inc", fn))
            else:
                text = kernel(fn, fired, l2 and fn != "EigenSystemSU3.txt")
            with open(os.path.join(dst, fn), "w") as f:
                f.write(text)
            n += 1
    return dst


def kernel(rel, fired, l2=True):
    """a generated kernel file from /repo, comments stripped; R1 throw -> SQ_THROW; R3 for Layer 2"""
    path = os.path.join("include", "SQuIDS", "SU_inc", rel)
    text = strip_comments(core.repo_read(path))
    text, n = re.subn(r'throw\s+std::runtime_error\s*\(', 'SQ_THROW(', text)
    if n:
        fired["R1.throw"] = fired.get("R1.throw", 0) + n
    if l2:
        text = r3(text, fired, rel)
    return text


# --------------------------------------------------------------------------------------------------------
class Query:
    def __init__(self, name, ctext, defines=(), trig=False, timeout=30, function="", where="", group=None,
                 extra_axioms="", want_model=(), zero_axiom=False, unwind=None, loop_contracts=False, u2r=False, explog=False):
        self.__dict__.update(locals())
        del self.__dict__['self']


def explog_axioms(forms):
    """libm exp/log stay uninterpreted (Real -> Real).  Ground instances, for the argument terms that occur, of: exp strictly increasing, log strictly
    increasing on the positive reals, exp(log a) = a for a > 0.  Quantifier-free, so a wrong body still yields `sat` (a refutation), not `unknown`."""
    E, L = '__CPROVER_uninterpreted_exp', '__CPROVER_uninterpreted_log'
    la = fp2real.uf_args(forms, L)
    ea = fp2real.uf_args(forms, E)
    ax = []
    for a in la:
        ax.append('(assert (=> (< 0.0 %s) (= (%s (%s %s)) %s)))' % (a, E, L, a, a))
        t = '(%s %s)' % (L, a)
        if t not in ea:
            ea.append(t)
    for a in la:
        for b in la:
            if a != b:
                ax.append('(assert (=> (and (< 0.0 %s) (< %s %s)) (< (%s %s) (%s %s))))' % (a, a, b, L, a, L, b))
    for a in ea:
        for b in ea:
            if a != b:
                ax.append('(assert (=> (< %s %s) (< (%s %s) (%s %s))))' % (a, b, E, a, E, b))
                ax.append('(assert (=> (= %s %s) (= (%s %s) (%s %s))))' % (a, b, E, a, E, b))
    return ax


class QResult:
    def __init__(self, q):
        self.q = q
        self.status = "undecided"   # discharged / failed / undecided
        self.backend = ""
        self.seconds = 0.0
        self.detail = ""
        self.model = {}
        self.cmds = []
        self.n_trig = 0
        self.n_loop_obligations = 0
        self.divisors = 0


_TOK = re.compile(r'\|[^|]+\||[^\s()|]+')


def slice_forms(forms):
    """cone of influence of the assertions: drops definitions/declarations no assertion depends on"""
    defs = {}
    for i, t in enumerate(forms):
        m = re.match(r'^\((?:define-fun|declare-fun) (\|[^|]+\||[^ ()]+) ', t)
        if m:
            defs[m.group(1)] = i
    keep = set()
    work = []
    for i, t in enumerate(forms):
        if not re.match(r'^\((?:define-fun|declare-fun) ', t):
            keep.add(i)
            work.append(i)
    while work:
        i = work.pop()
        t = forms[i]
        body = t
        m = re.match(r'^\((?:define-fun|declare-fun) (?:\|[^|]+\||[^ ()]+) ', t)
        if m:
            body = t[m.end():]
        for tok in _TOK.findall(body):
            j = defs.get(tok)
            if j is not None and j not in keep:
                keep.add(j)
                work.append(j)
    return [t for i, t in enumerate(forms) if i in keep]


def _aliases(forms):
    al = {}
    rx = re.compile(r'^\(define-fun (\|[^|]+\|) \(\) Real (\|[^|]+\|)\)$')
    for t in forms:
        m = rx.match(t)
        if m:
            al[m.group(1)] = m.group(2)
    def res(x):
        seen = 0
        while x in al and seen < 100:
            x = al[x]
            seen += 1
        return x
    return res


_SYM = r'\|[^|]+\|'


def trig_axioms(forms, zero_axiom=False):
    """Ackermannisation of sin/cos (DESIGN 4.2): every application (sin a)/(cos a) becomes a fresh real constant per
    argument class; the axiom instances over the classes that occur are added: s^2+c^2=1, a=0 => (s,c)=(0,1),
    double angle (definitional when a is syntactically 2*b, conditional otherwise), parity and congruence
    (conditional, pairwise) for compound arguments.  Returns (new forms, axioms, #classes)."""
    res = _aliases(forms)
    raw = []
    for a in fp2real.uf_args(forms, SIN) + fp2real.uf_args(forms, COS):
        if a not in raw:
            raw.append(a)
    if not raw:
        return forms, [], 0
    if any(("(" + SIN + " ") in a or ("(" + COS + " ") in a for a in raw):
        raise Undecided("nested sin/cos application")
    classes = []          # canonical texts
    cls_of = {}
    for a in raw:
        c = re.sub(_SYM, lambda m: res(m.group(0)), a)
        if c not in classes:
            classes.append(c)
        cls_of[a] = classes.index(c)
    # replace applications (longest argument first so that no text is a prefix problem)
    new = []
    for t in forms:
        if t.startswith("(declare-fun %s " % SIN) or t.startswith("(declare-fun %s " % COS):
            continue
        if ("(" + SIN + " ") in t or ("(" + COS + " ") in t:
            for a in sorted(raw, key=len, reverse=True):
                t = t.replace("(%s %s)" % (SIN, a), "|sin#%d|" % cls_of[a]).replace("(%s %s)" % (COS, a), "|cos#%d|" % cls_of[a])
            if ("(" + SIN + " ") in t or ("(" + COS + " ") in t:
                raise Undecided("sin/cos application not replaced")
        new.append(t)
    decl = []
    free = set(m.group(1) for t in forms for m in [re.match(r'^\(declare-fun (\|[^|]+\|) \(\) Real\)$', t)] if m)

    class _Simple:      # an argument is simple iff it is a free real constant or twice one (distinct simple arguments are independent)
        @staticmethod
        def match(c):
            m = re.match(r'^(?:(%s)|\(\* 2\.0 (%s)\))$' % (_SYM, _SYM), c)
            return bool(m) and ((m.group(1) or m.group(2)) in free)
    simple = _Simple
    defined = set()
    # definitional double angle: class k has text (* 2.0 X) with X another class
    for k, c in enumerate(classes):
        m = re.match(r'^\(\* 2\.0 (.*)\)$', c)
        if m and m.group(1) in classes:
            j = classes.index(m.group(1))
            decl.append("(define-fun |sin#%d| () Real (* 2.0 |sin#%d| |cos#%d|))" % (k, j, j))
            decl.append("(define-fun |cos#%d| () Real (- (* |cos#%d| |cos#%d|) (* |sin#%d| |sin#%d|)))" % (k, j, j, j, j))
            defined.add(k)
    pre = []
    for k, c in enumerate(classes):
        if k not in defined:
            pre.append("(declare-fun |sin#%d| () Real)" % k)
            pre.append("(declare-fun |cos#%d| () Real)" % k)
    # order: declared constants first, then definitional ones (which refer to declared ones or earlier definitions)
    ax = []
    for k, c in enumerate(classes):
        if k in defined:
            continue
        ax.append("(assert (= (+ (* |sin#%d| |sin#%d|) (* |cos#%d| |cos#%d|)) 1.0))" % (k, k, k, k))
        if zero_axiom:
            ax.append("(assert (=> (= %s 0.0) (and (= |sin#%d| 0.0) (= |cos#%d| 1.0))))" % (c, k, k))
    for i, ci in enumerate(classes):
        for j, cj in enumerate(classes):
            if i >= j:
                continue
            if simple.match(ci) and simple.match(cj):
                continue       # distinct simple arguments: independent (or definitional, handled above)
            ax.append("(assert (=> (= %s %s) (and (= |sin#%d| |sin#%d|) (= |cos#%d| |cos#%d|))))" % (ci, cj, i, j, i, j))
            ax.append("(assert (=> (= %s (- %s)) (and (= |sin#%d| (- |sin#%d|)) (= |cos#%d| |cos#%d|))))" % (ci, cj, i, j, i, j))
    # constants must be declared before first use: put them right after set-logic; the canonical argument texts used in
    # the axioms only mention symbols defined in the body, so the axioms go at the end.
    out = []
    placed = False
    for t in new:
        out.append(t)
        if not placed and t.startswith("(set-logic"):
            out.extend(pre)
            placed = True
    if not placed:
        out = pre + out
    # definitional double angles refer only to declared constants: safe right after the declarations
    idx = out.index(pre[-1]) + 1 if pre else 0
    # chains (4*x defined via 2*x) need dependency order: sort by class text length
    out[idx:idx] = sorted(decl, key=len) if False else decl
    return out, ax, len(classes)


def run_query(q, bdir, inc=()):
    r = QResult(q)
    base = os.path.join(bdir, q.name)
    with open(base + ".c", "w") as f:
        f.write(q.ctext)
    cmd = ["cbmc", "--cvc5", "--outfile", base + ".fp.smt2", "--no-standard-checks", "--no-built-in-assertions"]
    for d in inc:
        cmd += ["-I", d]
    cmd += ["-D" + d for d in q.defines] + [base + ".c"]
    if q.loop_contracts:
        # unbounded route: the loops of the extracted text carry loop contracts (//@LOOP); goto-instrument replaces each loop by
        # base case / havoc / assumed invariant / one iteration / invariant + decreases step, and the VC is generated from that program
        cc = ["goto-cc", "-o", base + ".a.gb"] + sum((["-I", d] for d in inc), []) + ["-D" + d for d in q.defines] + [base + ".c"]
        rc0, out0, err0, s0 = core.run(cc, timeout=120, mem_gb=8)
        gi = ["goto-instrument", "--apply-loop-contracts", base + ".a.gb", base + ".b.gb"]
        rc1, out1, err1, s1 = core.run(gi, timeout=120, mem_gb=8) if rc0 == 0 else (None, "", "", 0)
        r.seconds += s0 + s1
        r.cmds += [" ".join(cc), " ".join(gi)]
        if rc0 != 0 or rc1 != 0 or not os.path.exists(base + ".b.gb"):
            r.detail = "goto-cc / goto-instrument --apply-loop-contracts failed: " + ((out0 or "") + (err0 or "") + (out1 or "") + (err1 or ""))[-600:]
            return r
        shown = core.run(["cbmc", "--show-properties", "--no-standard-checks", "--no-built-in-assertions", base + ".b.gb"], timeout=120, mem_gb=8)[1] or ""
        r.n_loop_obligations = len(re.findall(r"Check that loop invariant is preserved", shown))
        if r.n_loop_obligations < q.loop_contracts:
            r.detail = "loop contract not applied: %d invariant-step obligations, %d expected" % (r.n_loop_obligations, q.loop_contracts)
            return r
        cmd = ["cbmc", "--cvc5", "--outfile", base + ".fp.smt2", "--no-standard-checks", "--no-built-in-assertions", base + ".b.gb"]
    if q.unwind:
        # loops are unwound q.unwind times.  First decide the unwinding assertions alone with plain CBMC (they depend on loop counters only): a failing one
        # means the bound is too small for this job -> undecided, never a violation.  Once they hold, paths beyond the bound do not exist and the VC is
        # generated with the bound as an assumption.
        cmdu = ["cbmc", "--no-standard-checks", "--no-built-in-assertions", "--unwind", str(q.unwind), "--unwinding-assertions", "--slice-formula"]
        for d in inc:
            cmdu += ["-I", d]
        cmdu += ["-D" + d for d in q.defines] + ["-D__CPROVER_assert(c,m)=(void)0", base + ".c"]       # user assertions off: only unwinding assertions remain
        rcu, outu, erru, su = core.run(cmdu, timeout=300, mem_gb=12)
        r.seconds += su
        unw = re.findall(r'^\[[^\]]*unwind[^\]]*\][^\n]*: (SUCCESS|FAILURE)', outu or "", re.M)
        # (CBMC emits an unwinding assertion only for a loop that actually reaches the limit; none at all means every loop finished below it)
        if rcu is None or "FAILURE" in unw or not re.search(r"VERIFICATION (SUCCESSFUL|FAILED)", outu or ""):
            r.detail = "unwinding bound %d not shown sufficient (loop bound of the job too small or undecided): %s" % (q.unwind, ((outu or "") + (erru or ""))[-300:])
            return r
        r.cmds.append(" ".join(cmdu))
        cmd += ["--unwind", str(q.unwind)]
    r.cmds.append(" ".join(cmd))
    rc, out, err, s = core.run(cmd, timeout=300, mem_gb=12)
    r.seconds += s
    if rc is None or not os.path.exists(base + ".fp.smt2"):
        r.detail = "cbmc VC generation failed: " + ((out or "") + (err or ""))[-600:]
        return r
    src = open(base + ".fp.smt2").read()
    if "(assert" not in src:
        # every assertion was folded during symbolic execution (ground instance): no VC left.  Confirm with a
        # plain CBMC run (bit-precise, trivial) so that "no assertion reached" cannot pass silently.
        cmd2 = [c for c in cmd if c not in ("--cvc5", "--outfile", base + ".fp.smt2")]
        rc2, out2, err2, s2 = core.run(cmd2, timeout=120, mem_gb=12)
        r.seconds += s2
        m = re.search(r"\*\* 0 of (\d+) failed", out2 or "")
        if rc2 == 0 and m and int(m.group(1)) > 0:
            r.status, r.backend, r.detail = "discharged", "cbmc-simplifier", "all %s assertions folded to true by symbolic execution" % m.group(1)
        else:
            r.detail = "empty VC but plain cbmc did not confirm: " + (out2 or "")[-300:]
        return r
    try:
        forms, sw = fp2real.swap_text(src, u2r=getattr(q, 'u2r', False))
    except Undecided as e:
        r.detail = str(e)
        return r
    r.divisors = len(sw.divisors)
    forms = slice_forms(forms)
    ax = []
    if q.trig:
        forms, ax, r.n_trig = trig_axioms(forms, getattr(q, 'zero_axiom', False))
    if q.extra_axioms:
        ax.append(q.extra_axioms)
    if getattr(q, 'explog', False):
        ax += explog_axioms(forms)
    body = "\n".join(forms)
    gv = ""
    names = []
    for nm in q.want_model:
        vs = [int(m.group(1)) for m in re.finditer(r'\(define-fun \|' + re.escape(nm) + r'#(\d+)\|', body)]
        if vs:
            names.append("|%s#%d|" % (nm, max(vs)))
    if names:
        gv = "(get-value (%s))\n" % " ".join(names)
    full = body + "\n" + "\n".join(ax) + "\n(check-sat)\n"
    with open(base + ".smt2", "w") as f:
        f.write(full)
    with open(base + ".z3.smt2", "w") as f:
        f.write(full + gv)
    with open(base + ".nl.smt2", "w") as f:
        f.write(body + "\n" + "\n".join(ax) + "\n" + NLSAT + "\n" + gv)
    r.cmds.append("fp2real ; z3 -T:%d | cvc5 --tlimit (portfolio)" % q.timeout)
    ans, who, s, o = portfolio_named(base, q.timeout)
    r.seconds += s
    r.backend = who or "z3|cvc5"
    if ans == "unsat":
        r.status = "discharged"
    elif ans == "sat":
        r.status = "failed"
        r.detail = "sat: the negated postcondition has a real-arithmetic model"
        for m in re.finditer(r'\((\|[^|]+\|)\s+(\(- [^()]+\)|\(/ [^()]+\)|\(- \(/ [^()]+\)\)|[^()\s]+)\)', o):
            r.model[m.group(1)] = m.group(2)
    else:
        r.detail = "solvers returned no answer within %ds" % q.timeout
    return r


NLSAT = "(check-sat-using (then simplify propagate-values solve-eqs simplify qfnra-nlsat))"


def _spawn(cmd):
    return subprocess.Popen(cmd, stdout=subprocess.PIPE, stderr=subprocess.DEVNULL, text=True, preexec_fn=core._limits(8))


def portfolio_named(base, timeout, stage1=4.0):
    """z3 with the nlsat tactic first (by far the fastest on these polynomial identities); if it has no answer after
    `stage1` seconds, z3 (default strategy) and cvc5 join.  First definitive answer wins."""
    t0 = time.time()
    procs = [("z3-nlsat", _spawn(["z3", "-T:%d" % timeout, base + ".nl.smt2"])),
             ("z3new-nlsat", _spawn(["z3-new", "-T:%d" % timeout, base + ".nl.smt2"]))]
    ans, who, out = "unknown", "", ""
    pending = list(procs)
    joined = False
    deadline = t0 + timeout + 5
    while pending and time.time() < deadline:
        progressed = False
        for sp in list(pending):
            s, p = sp
            if p.poll() is not None:
                o = p.stdout.read()
                pending.remove(sp)
                progressed = True
                first = o.strip().split("\n")[0].strip() if o.strip() else ""
                if first in ("sat", "unsat"):
                    ans, who, out = first, s, o
                    for _, qq in pending:
                        try:
                            os.killpg(qq.pid, 9)
                        except Exception:
                            pass
                    pending = []
                    break
        if ans != "unknown":
            break
        if not joined and (time.time() - t0 > stage1 or not pending):
            joined = True
            more = [("z3", _spawn(["z3", "-T:%d" % timeout, base + ".z3.smt2"])),
                    ("cvc5", _spawn(["cvc5", "--tlimit=%d" % (timeout * 1000), base + ".smt2"]))]
            procs += more
            pending += more
            progressed = True
        if not progressed:
            time.sleep(0.02)
    for _, qq in pending:
        try:
            os.killpg(qq.pid, 9)
        except Exception:
            pass
    for _, qq in procs:
        try:
            qq.wait(timeout=5)
        except Exception:
            pass
    return ans, who, time.time() - t0, out


def record(report, r, pid):
    q = r.q
    for c in r.cmds:
        report.cmd(re.sub(r'/\S*/\.build/\S*?/', '', c))
    report.add("%s.L2.%s" % (pid, q.name), q.function, "L2", r.backend or "smt", r.status, r.seconds, q.where, r.detail)


def run_all(report, pid, qs, bdir, inc, workers=None):
    """run queries, record every result; returns the list of non-discharged results"""
    results = core.pmap(lambda q: run_query(q, bdir, inc), qs, workers=workers or max(2, core.NCPU // 2))
    bad = []
    for r in results:
        record(report, r, pid)
        if r.status != "discharged":
            bad.append(r)
    return bad


def std_setup(report, pid):
    """common Layer-2 set-up: build dir, rewritten kernel copies, standard assumption texts"""
    bdir = core.builddir(pid)
    fired = {}
    nrows = validate_tables()
    prep_su_inc(bdir, fired)
    for k, v in fired.items():
        report.rule(k, v)
    report.rule("R3.table_rows_validated", nrows)
    report.assume("machine arithmetic treated as mathematical (FloatingPoint(11,53) -> Real by tools/fp2real.py): rounding is not modelled")
    report.assume("S2,S3,S5 are the positive roots of 2,3,5; sin/cos are uninterpreted functions constrained only by the axiom instances of DESIGN 4.2")
    report.trust("CBMC 6.11 symbolic execution (--outfile), tools/fp2real.py theory swap, z3 4.8.12, cvc5 1.0")
    return bdir, [bdir, os.path.join(core.VERIF, "spec")]


def run_symbolic(rep, pid, qs, bdir, inc, gens=None, lin=None, witness=None, replay_prog=None, workers=None):
    """Run fully symbolic VCs.  A VC that is not discharged is localised with generator instantiations
    (`gens(q)` -> sub-queries); when every instantiation holds and the linearity lemma `lin(q)` (an obligation id
    recorded in this run) is discharged, the VC counts as discharged by composition (DESIGN 4.3).  Failing
    VCs are replayed natively through `witness(q, failing_sub)`."""
    import replaylib
    results = core.pmap(lambda q: run_query(q, bdir, inc), qs, workers=workers or max(2, core.NCPU // 2))
    by_id = {}
    pending = []
    for r in results:
        if r.status == "discharged" or gens is None or gens(r.q) is None:
            record(rep, r, pid)
            by_id["%s.L2.%s" % (pid, r.q.name)] = r
            if r.status == "failed":
                pending.append((r, None))
        else:
            pending.append((r, gens(r.q)))
    for r, sub in pending:
        fail_sub = None
        if sub is not None:
            sres = core.pmap(lambda x: run_query(x, bdir, inc), sub)
            bad = [x for x in sres if x.status == "failed"]
            und = [x for x in sres if x.status == "undecided"]
            if bad:
                fail_sub = bad[0]
                r.status = "failed"
                r.detail = "instantiation %s violates the postcondition" % ", ".join(x.q.name for x in bad[:4])
            elif und:
                r.status = "undecided"
                r.detail = (r.detail + "; %d instantiations undecided" % len(und)).strip("; ")
            else:
                lid = lin(r.q) if lin else None
                lr = by_id.get(lid)
                if r.status == "undecided" and lr is not None and lr.status == "discharged":
                    r.status, r.detail = "discharged", "by %d generator instantiations + linearity lemma %s" % (len(sres), lid)
                    for x in sres:
                        record(rep, x, pid)
                elif r.status == "failed":
                    r.status = "undecided"
                    r.detail = "symbolic VC sat but every instantiation holds"
            record(rep, r, pid)
        if r.status == "failed":
            oid = "%s.L2.%s" % (pid, r.q.name)
            data = dict(obligation=r.q.name, function=r.q.function, verifier="cbmc --outfile + fp2real + " + (r.backend or "z3/cvc5"),
                        verifier_output=r.detail, model=(fail_sub.model if fail_sub else r.model))
            ok = False
            if witness:
                data["witness"] = witness(r.q, fail_sub)
                path = core.write_replay(pid, oid, data)
                ok = replaylib.run_replay(pid, path, prog=replay_prog)
            else:
                path = core.write_replay(pid, oid, data)
            rep.violation(oid, path, nofail=not ok)


def defs_of(q):
    return dict((x.split("=") + ["1"])[:2] for x in q.defines)
