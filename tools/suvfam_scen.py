"""native replay scenarios for failing obligations of the SU_vector family (replay/lifecycle.cpp)"""
import re


def extra(fam, pid):
    if pid in ("C08", "C09"):
        fam.add_guards()          # the proxy-building entry points decide which operand is flagged movable (C08) and in which order operands reach the kernel (C09/C01)
    if pid == "C14":
        fam.add_guards()
        fam.add_factories(public_make_aligned=True)
    if pid == "C16":
        fam.add_factories(public_make_aligned=True)


def scenario(job, p):
    n = job.name
    d = p.desc + " " + p.name
    if n == "assign_copy":
        return "badalloc_assign"
    if n.startswith("assignProxy") or n.startswith("ctor_proxy"):
        if "precondition" in p.name and "proxy_compute" in p.name:
            return "alias_inplace"
        return "theft_or_badalloc"
    if n == "ctor_ext":
        return "ext_dim1"
    if n == "make_aligned":
        return "make_aligned_dim"
    if n == "ctor_list":
        return "list_ctor"
    if n == "guard.m_Evolve":
        return "evolve_mismatch"
    if n.startswith("guard."):
        return "guards"
    if n in ("ctor_move", "assign_move", "ctor_copy", "SetBackingStore", "ctor_sized", "dtor"):
        return "moves"
    return None
