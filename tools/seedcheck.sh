#!/bin/sh
# usage: seedcheck.sh <seed-dir-with-patch.diff+demo.cpp+meta.json> <name>
# Confirms a seeded change independently in a scratch worktree: builds, 24 tests pass, demo fails with / passes without.
# On success copies the seed to /verif/seeded/<name>/ and appends what was run to meta.json.
sd="$1"; name="$2"; wt="/tmp/sv_$name"
log="/tmp/sv_$name.log"
rm -rf "$wt"; git -C /repo worktree prune
/verif/tools/mkworktree.sh "$wt" >/dev/null || exit 3
cd "$wt" || exit 3
res="ok"
demo() { g++ -std=c++11 -O1 -I"$wt/include" "$sd/demo.cpp" -L"$wt/lib" -lSQuIDS -lgsl -lgslcblas -lm -lpthread -o "$wt/demo" >>"$log" 2>&1 && LD_LIBRARY_PATH="$wt/lib" timeout 600 "$wt/demo" >>"$log" 2>&1; }
: > "$log"
(make >>"$log" 2>&1) || res="clean build failed"
demo; c0=$?
[ "$c0" = 0 ] || res="demo does not pass on clean tree (rc=$c0)"
git apply "$sd/patch.diff" >>"$log" 2>&1 || git apply --3way "$sd/patch.diff" >>"$log" 2>&1 || res="patch does not apply"
make clean >>"$log" 2>&1; (make >>"$log" 2>&1) || res="patched build failed"
t=$(cd test && ./run_tests 2>&1 | tail -1); echo "$t" >>"$log"
echo "$t" | grep -q "24 passes, 0 failures" || res="tests fail with patch: $t"
demo; c1=$?
[ "$c1" != 0 ] || res="demo passes with patch"
if [ "$res" = ok ]; then
  mkdir -p /verif/seeded/$name
  cp "$sd/patch.diff" "$sd/demo.cpp" /verif/seeded/$name/
  python3 - "$sd/meta.json" /verif/seeded/$name/meta.json "$c0" "$c1" "$t" <<'PY'
import json,sys
m=json.load(open(sys.argv[1]))
m["confirmed_by_seedcheck"]={"repo_head":__import__("subprocess").check_output(["git","-C","/repo","rev-parse","--short","HEAD"],text=True).strip(),
  "clean_demo_rc":int(sys.argv[3]),"patched_demo_rc":int(sys.argv[4]),"tests_with_patch":sys.argv[5],
  "ran":["scratch worktree of /repo HEAD; make; demo (pass); git apply patch.diff; make clean && make; test/run_tests; demo (fail)"]}
json.dump(m,open(sys.argv[2],"w"),indent=1)
PY
fi
cd /; git -C /repo worktree remove --force "$wt" >/dev/null 2>&1; rm -rf "$wt"
echo "$name: $res"
