"""Extraction of the compile-time operation traits and guarantee constants from detail/ProxyFwd.h (DESIGN 2.2:
`operation_traits<...>` constants become ghost constants of the C text).  Must-fire: every proxy family and every
constant has to be found, otherwise ExtractionError (exit 2)."""
import re

from core import ExtractionError, repo_read
from extract import strip_comments

FAMILIES = ["EvolutionProxy", "FastEvolutionProxy", "AdditionProxy", "SubtractionProxy", "NegationProxy",
            "MultiplicationProxy", "iCommutatorProxy", "ACommutatorProxy", "BinaryElementwiseOpProxy"]
FIELDS = ["elementwise", "vector_arity", "no_alias_target", "equal_target_size", "aligned_storage"]


def _fields(body, ctx):
    out = {}
    for f in FIELDS:
        m = re.search(r'constexpr\s+static\s+(?:bool|unsigned\s+int)\s+' + f + r'\s*=\s*([^;]+);', body)
        if not m:
            raise ExtractionError("trait %s not found in %s" % (f, ctx))
        out[f] = m.group(1).strip()
    return out


def extract_traits():
    src = strip_comments(repo_read("include/SQuIDS/detail/ProxyFwd.h"))
    m = re.search(r'template<typename\s+Op>\s*struct\s+operation_traits\s*\{(.*?)\};', src, re.S)
    if not m:
        raise ExtractionError("primary operation_traits template not found")
    primary = _fields(m.group(1), "primary operation_traits")
    fam = {}
    for f in FAMILIES:
        pat = r'struct\s+operation_traits<\s*' + f + r'\s*(?:<\s*Op\s*>)?\s*>\s*\{(.*?)\};'
        mm = re.search(pat, src, re.S)
        fam[f] = _fields(mm.group(1), f) if mm else dict(primary)
    mm = re.search(r'struct\s+operation_traits<\s*GuaranteeWrapper<Flags,WrappedType>\s*>\s*\{(.*?)\};', src, re.S)
    if not mm:
        raise ExtractionError("operation_traits<GuaranteeWrapper> not found")
    gw = _fields(mm.group(1), "GuaranteeWrapper traits")
    consts = {}
    for c in ("NoAlias", "EqualSizes", "AlignedStorage"):
        m2 = re.search(r'constexpr\s+static\s+unsigned\s+int\s+' + c + r'\s*=\s*(\d+)\s*;', src)
        if not m2:
            raise ExtractionError("constant %s not found" % c)
        consts[c] = int(m2.group(1))
    for c in ("Arg1Movable", "Arg2Movable"):
        m2 = re.search(r'constexpr\s+static\s+int\s+' + c + r'\s*=\s*(\d+)\s*;', src)
        if not m2:
            raise ExtractionError("constant %s not found" % c)
        consts[c] = int(m2.group(1))
    wr = {}
    for w in ("AssignWrapper", "IncrementWrapper", "DecrementWrapper"):
        m3 = re.search(r'struct\s+' + w + r'\s*\{(.*?)\n  \};', src, re.S)
        if not m3:
            raise ExtractionError("wrapper %s not found" % w)
        m4 = re.search(r'constexpr\s+static\s+bool\s+allowTargetResize\s*=\s*(true|false)\s*;', m3.group(1))
        if not m4:
            raise ExtractionError("allowTargetResize of %s not found" % w)
        wr[w] = m4.group(1)
    return fam, gw, consts, wr


def c_text():
    """C text: tables indexed by family 0..8 and the GuaranteeWrapper formulas as macros over (Flags, base value)"""
    fam, gw, consts, wr = extract_traits()

    def cv(x):
        return {"true": "1", "false": "0"}.get(x, x)
    lines = ["/* ---- extracted from include/SQuIDS/detail/ProxyFwd.h (operation_traits, guarantee constants, wrappers) ---- */"]
    for c, v in consts.items():
        lines.append("#define SQ_%s %du" % (c, v))
    for f in ("elementwise", "vector_arity"):
        lines.append("static const unsigned TR_%s[9]={%s};" % (f, ",".join(cv(fam[x][f]) for x in FAMILIES)))
    for f in ("no_alias_target", "equal_target_size", "aligned_storage"):
        lines.append("static const unsigned TR_%s[9]={%s};" % (f, ",".join(cv(fam[x][f]) for x in FAMILIES)))

    def gwx(e):   # formula of the GuaranteeWrapper specialisation over Flags / base_traits
        e = re.sub(r'base_traits::(\w+)', r'BASE_\1', e)
        e = re.sub(r'\b(NoAlias|EqualSizes|AlignedStorage)\b', r'SQ_\1', e)
        return e
    for f in FIELDS:
        lines.append("#define GW_%s(Flags,BASE_%s) ((%s)!=0)" % (f, f, gwx(gw[f])) if f != "vector_arity"
                     else "#define GW_%s(Flags,BASE_%s) (%s)" % (f, f, gwx(gw[f])))
    lines.append("static const unsigned W_allowTargetResize[3]={%s};   /* Assign, Increment, Decrement */" %
                 ",".join(cv(wr[w]) for w in ("AssignWrapper", "IncrementWrapper", "DecrementWrapper")))
    return "\n".join(lines) + "\n", dict(families=len(fam), constants=len(consts), wrappers=len(wr))
