"""C01 -- SU_vector is a faithful linear image of the Hermitian matrix it represents (DESIGN 8, C01)."""
import os

import core
import extract
import l2
import replaylib

WHAT = {1: ("tomatrix", "SU_vector::GetGSLMatrix(gsl_matrix_complex*) + SUToMatrix%d.txt"),
        2: ("frommatrix.ctor", "SU_vector::SU_vector(const gsl_matrix_complex*) + MatrixToSU%d.txt"),
        3: ("frommatrix.cfm", "ComponentsFromMatrices + MatrixToSU%d.txt"),
        5: ("conversions.linear", "GetGSLMatrix / matrix ctor (linearity lemma)"),
        6: ("transpose", "SU_vector::Transpose"),
        7: ("realimag", "SU_vector::Real / SU_vector::Imag"),
        8: ("elementwise", "Addition/Subtraction/Negation/MultiplicationProxy::compute, operator+= -= *= /=")}


def run(rep, tier):
    bdir, inc = l2.std_setup(rep, "C01")
    tpl = open(os.path.join(core.VERIF, "contracts", "C01_l2.c")).read()
    ctext = extract.instantiate(tpl, rep)
    rep.dropped.append("methods -> free functions with the members (dim,size,components) as parameters; constructor initialiser lists are "
                       "not part of the Layer-2 text (ownership/allocation is Layer 1, C08/C15); VLA m_real[dim][dim] -> m_real[D][D]; "
                       "gsl_matrix_complex_get/set by their documented bodies; element-wise kernels evaluated through `+=` on a zeroed target")
    rep.trust("two linear maps that agree on a basis are equal")
    rep.assume("matrix-level meaning of + - negation scalar* follows from linearity of the spec map M (obligation spec.toMatrix.linear, C02)")
    timeout = 60 if tier == "quick" else 300
    qs = []
    for d in (2, 3, 4, 5, 6):
        for w, (nm, fn) in WHAT.items():
            f = fn % d if "%d" in fn else fn
            qs.append(l2.Query("%s.d%d" % (nm, d), ctext, ["D=%d" % d, "WHAT=%d" % w], timeout=timeout, function=f, where="src/SUNalg.cpp"))
        for ia in range(d * d):
            qs.append(l2.Query("roundtrip.d%d.gen%d" % (d, ia), ctext, ["D=%d" % d, "WHAT=4", "IA=%d" % ia], timeout=timeout,
                               function="GetGSLMatrix o matrix ctor (d=%d)" % d, where="src/SUNalg.cpp"))
    bad = l2.run_all(rep, "C01", qs, bdir, inc)
    for r in bad:
        if r.status == "failed":
            defs = dict(x.split("=") for x in r.q.defines)
            data = dict(obligation=r.q.name, function=r.q.function, verifier="cbmc --outfile + fp2real + " + r.backend,
                        verifier_output=r.detail, model=r.model,
                        witness=dict(what=int(defs["WHAT"]), d=int(defs["D"]), ia=int(defs.get("IA", -1)), seed=core.SEED))
            oid = "C01.L2." + r.q.name
            path = core.write_replay("C01", oid, data)
            ok = replaylib.run_replay("C01", path)
            rep.violation(oid, path, nofail=not ok)
    # Layer 1: operator== under its DFCC contract (equal iff same dimension, same emptiness and equal components; witness index otherwise)
    from props import suvfam
    import suvfam_scen
    fam = suvfam.Fam(rep, "C01", sub=".l1")
    fam.list_ns = (4, 9, 16, 25, 36)          # the supported squares: list -> vector stores the list exactly (other lengths: C14)
    fam.add_life(names=["eq", "GetComponents", "ctor_list"])
    fam.also_tags = {"C09"}
    fam.add_kernels(fams=["Addition", "Subtraction", "Negation", "Multiplication"])   # every component of the result is written (exactly once) for EVERY scalar and operand value
    fam.add_guards()          # a + b, a - b for every overload (operand order of the difference, value categories): the proxy handed to the kernels of the L2 part
    fam.run(scenario=suvfam_scen.scenario)


def replay(path):
    ok = replaylib.run_replay("C01", path)
    print("reproduced" if ok else "not reproduced")
    return 1 if ok else 0
