"""C02 -- commutator, anticommutator, scalar product equal their matrix definitions (DESIGN 8, C02)."""
import os

import core
import extract
import l2
import replaylib

KINDS = {1: ("icomm", "detail::iCommutatorProxy::compute + iConmutatorSU%d.txt"),
         2: ("acomm", "detail::ACommutatorProxy::compute + AnticonmutatorSU%d.txt"),
         3: ("trace", "SUTrace")}


def queries(ctext, dims, timeout):
    qs = []
    for d in dims:
        n = d * d
        qs.append(l2.Query("spec.toMatrix.linear.d%d" % d, ctext, ["D=%d" % d, "KIND=1", "MODE=3"], timeout=timeout,
                           function="spec toMatrix (d=%d)" % d, where="spec/gellmann.h"))
        for k, (nm, fn) in KINDS.items():
            f = fn % d if "%d" in fn else fn
            qs.append(l2.Query("%s.d%d.linear" % (nm, d), ctext, ["D=%d" % d, "KIND=%d" % k, "MODE=2"], timeout=timeout,
                               function=f, where="include/SQuIDS/detail/ProxyImpl.h", want_model=["in_lam"]))
            for ia in range(n):
                qs.append(l2.Query("%s.d%d.gen%d" % (nm, d, ia), ctext, ["D=%d" % d, "KIND=%d" % k, "MODE=1", "IA=%d" % ia],
                                   timeout=timeout, function=f, where="include/SQuIDS/detail/ProxyImpl.h"))
    return qs


def run(rep, tier):
    bdir = core.builddir("C02")
    fired = {}
    nrows = l2.validate_tables()
    l2.prep_su_inc(bdir, fired)
    for k, v in fired.items():
        rep.rule(k, v)
    rep.rule("R3.table_rows_validated", nrows)
    tpl = open(os.path.join(core.VERIF, "contracts", "C02_l2.c")).read()
    ctext = extract.instantiate(tpl, rep)
    inc = [bdir, os.path.join(core.VERIF, "spec")]
    rep.dropped.append("kernels: `throw` -> ghost flag (R1); sqrt(literal) -> products of the symbols S2,S3,S5 (R3, table validated natively); "
                       "proxy compute(): template/`this` dropped, operands passed by value; vector_wrapper<W> -> plain `+=` on a zeroed target "
                       "(that every slot is written exactly once and that the wrapper turns it into =,+=,-= is Layer 1, C09)")
    rep.assume("machine arithmetic treated as mathematical (FloatingPoint(11,53) -> Real by tools/fp2real.py): rounding is not modelled")
    rep.assume("S2,S3,S5 are the positive roots of 2,3,5")
    rep.trust("two linear maps that agree on a basis are equal (combines the linearity lemma with the generator instantiations)")
    rep.trust("CBMC 6.11 symbolic execution (--outfile), tools/fp2real.py theory swap, z3 4.8.12, cvc5 1.0")
    dims = [2, 3, 4, 5, 6]
    timeout = 60 if tier == "quick" else 300
    qs = queries(ctext, dims, timeout)
    results = core.pmap(lambda q: l2.run_query(q, bdir, inc), qs, workers=max(2, core.NCPU // 2))
    retry = []
    for r in results:
        if r.status == "discharged":
            l2.record(rep, r, "C02")
        else:
            retry.append(r)
    # failing / undecided instantiation: descend to concrete generator pairs (DESIGN 4.3)
    for r in retry:
        q = r.q
        defs = list(q.defines)
        if "MODE=1" not in defs:
            l2.record(rep, r, "C02")
            if r.status == "failed":
                _violation(rep, r, None)
            continue
        d = int([x for x in defs if x.startswith("D=")][0][2:])
        sub = [l2.Query("%s.ib%d" % (q.name, ib), q.ctext, defs + ["IB=%d" % ib], timeout=timeout, function=q.function, where=q.where)
               for ib in range(d * d)]
        subres = core.pmap(lambda x: l2.run_query(x, bdir, inc), sub)
        bad = [s for s in subres if s.status == "failed"]
        und = [s for s in subres if s.status == "undecided"]
        if bad:
            r.status = "failed"
            r.detail = "generator pair (%s) violates the postcondition" % ", ".join(x.q.name for x in bad[:4])
            l2.record(rep, r, "C02")
            _violation(rep, r, bad[0])
        elif und or r.status == "undecided":
            r.status = "undecided"
            l2.record(rep, r, "C02")
        else:
            # symbolic query said sat but every concrete pair holds: contradiction with linearity in b -> undecided
            r.status = "undecided"
            r.detail = "symbolic instance sat but all concrete pairs unsat"
            l2.record(rep, r, "C02")


def _violation(rep, r, sub):
    q = r.q
    oid = "C02.L2." + q.name
    defs = dict(x.split("=") for x in (sub.q.defines if sub else q.defines))
    data = dict(obligation=q.name, function=q.function, verifier="cbmc --outfile + fp2real + " + r.backend,
                verifier_output=r.detail, model=(sub.model if sub else r.model))
    if sub:
        data["witness"] = dict(kind=int(defs["KIND"]), d=int(defs["D"]), ia=int(defs["IA"]), ib=int(defs["IB"]))
    path = core.write_replay("C02", oid, data)
    ok = False
    if sub:
        ok = replaylib.run_replay("C02", path)
    rep.violation(oid, path, nofail=not ok)


def replay(path):
    ok = replaylib.run_replay("C02", path)
    print("reproduced" if ok else "not reproduced")
    return 1 if ok else 0
