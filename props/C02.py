"""C02 -- commutator, anticommutator, scalar product equal their matrix definitions (DESIGN 8, C02)."""
import os

import core
import extract
import l2
import replaylib

KINDS = {1: ("icomm", "detail::iCommutatorProxy::compute + iConmutatorSU%d.txt"),
         2: ("acomm", "detail::ACommutatorProxy::compute + AnticonmutatorSU%d.txt"),
         3: ("trace", "SUTrace")}


def q_sym(ctext, d, k, timeout):
    nm, fn = KINDS[k]
    f = fn % d if "%d" in fn else fn
    return l2.Query("%s.d%d.symbolic" % (nm, d), ctext, ["D=%d" % d, "KIND=%d" % k, "MODE=1"], timeout=timeout, function=f,
                    where="include/SQuIDS/detail/ProxyImpl.h")


def q_gen(ctext, d, k, ia, timeout):
    nm, fn = KINDS[k]
    f = fn % d if "%d" in fn else fn
    return l2.Query("%s.d%d.gen%d" % (nm, d, ia), ctext, ["D=%d" % d, "KIND=%d" % k, "MODE=1", "IA=%d" % ia], timeout=timeout,
                    function=f, where="include/SQuIDS/detail/ProxyImpl.h")


def run(rep, tier):
    bdir, inc = l2.std_setup(rep, "C02")
    tpl = open(os.path.join(core.VERIF, "contracts", "C02_l2.c")).read()
    ctext = extract.instantiate(tpl, rep)
    rep.dropped.append("kernels: `throw` -> ghost flag (R1); sqrt(literal) -> products of the symbols S2,S3,S5 (R3, table validated natively); "
                       "proxy compute(): template/`this` dropped, operands passed by value; vector_wrapper<W> -> plain `+=` on a zeroed target "
                       "(that every slot is written exactly once and that the wrapper turns it into =,+=,-= is Layer 1, C09)")
    rep.trust("two linear maps that agree on a basis are equal (only used when the fully symbolic VC is replaced by generator instantiations)")
    dims = [2, 3, 4, 5, 6]
    timeout = 60 if tier == "quick" else 300
    qs = []
    for d in dims:
        qs.append(l2.Query("spec.toMatrix.linear.d%d" % d, ctext, ["D=%d" % d, "KIND=1", "MODE=3"], timeout=timeout,
                           function="spec toMatrix (d=%d)" % d, where="spec/gellmann.h"))
        for k in KINDS:
            qs.append(q_sym(ctext, d, k, timeout))
            nm, fn = KINDS[k]
            qs.append(l2.Query("%s.d%d.linear" % (nm, d), ctext, ["D=%d" % d, "KIND=%d" % k, "MODE=2"], timeout=timeout,
                               function=(fn % d if "%d" in fn else fn), where="include/SQuIDS/detail/ProxyImpl.h"))
            if tier == "thorough":
                qs += [q_gen(ctext, d, k, ia, timeout) for ia in range(d * d)]
    results = core.pmap(lambda q: l2.run_query(q, bdir, inc), qs, workers=max(2, core.NCPU // 2))
    for r in results:
        if r.status == "discharged" or ".symbolic" not in r.q.name:
            l2.record(rep, r, "C02")
            if r.status == "failed":
                _violation(rep, r, None)
            continue
        # fully symbolic VC failed or undecided: localise with generator instantiations (DESIGN 4.3)
        defs = dict(x.split("=") for x in r.q.defines)
        d, k = int(defs["D"]), int(defs["KIND"])
        gres = core.pmap(lambda q: l2.run_query(q, bdir, inc), [q_gen(ctext, d, k, ia, timeout) for ia in range(d * d)])
        gbad = [g for g in gres if g.status != "discharged"]
        if not gbad:
            # all generators hold; together with the linearity lemma the postcondition holds
            lin = [x for x in results if x.q.name == "%s.d%d.linear" % (KINDS[k][0], d)][0]
            if lin.status == "discharged" and r.status == "undecided":
                r.status, r.detail, r.backend = "discharged", "by %d generator instantiations + linearity lemma" % (d * d), "z3/cvc5"
            else:
                r.status = "undecided"
            l2.record(rep, r, "C02")
            for g in gres:
                l2.record(rep, g, "C02")
            continue
        l2.record(rep, r, "C02") if r.status == "failed" else None
        for g in gbad:
            sub = core.pmap(lambda x: l2.run_query(x, bdir, inc),
                            [l2.Query("%s.ib%d" % (g.q.name, ib), g.q.ctext, list(g.q.defines) + ["IB=%d" % ib], timeout=timeout,
                                      function=g.q.function, where=g.q.where) for ib in range(d * d)])
            bad = [x for x in sub if x.status == "failed"]
            if bad:
                g.status = "failed"
                g.detail = "generator pair (%s) violates the postcondition" % ", ".join(x.q.name for x in bad[:4])
                l2.record(rep, g, "C02")
                _violation(rep, g, bad[0])
            else:
                g.status = "undecided"
                l2.record(rep, g, "C02")
        if r.status != "failed":
            r.status = "failed" if any(g.status == "failed" for g in gbad) else "undecided"
            l2.record(rep, r, "C02")
        if r.status == "failed":
            # the symbolic obligation is reported through its localised generator pairs
            first = [g for g in gbad if g.status == "failed"]
            if first:
                rep.violations.append(("C02.L2." + r.q.name, rep.violations[-1][1], rep.violations[-1][2]))
    # Layer 1 (shared with C09): the statement `T = op(A,B)` / `T += ...` / construction is the value contract above only if the kernel writes every slot of the
    # target exactly once through the statement's wrapper and is never evaluated in place on an aliased operand: kernel write-once jobs and the assignProxy /
    # proxy-constructor policy jobs of these operation families
    from props import suvfam
    import suvfam_scen
    fam = suvfam.Fam(rep, "C02", sub=".l1")
    fam.also_tags = {"C09"}        # the policy clauses tagged for C09 are exactly what makes the fused statement equal to the value contract above
    suvfam.std_texts(rep)
    fam.add_kernels(fams=["iCommutator", "ACommutator"])
    fam.add_proxy(fams=["iCommutator", "ACommutator"])
    fam.run(scenario=suvfam_scen.scenario)


def _violation(rep, r, sub):
    q = r.q
    oid = "C02.L2." + q.name
    defs = dict(x.split("=") for x in (sub.q.defines if sub else q.defines))
    data = dict(obligation=q.name, function=q.function, verifier="cbmc --outfile + fp2real + " + r.backend,
                verifier_output=r.detail, model=(sub.model if sub else r.model))
    if sub:
        data["witness"] = dict(kind=int(defs["KIND"]), d=int(defs["D"]), ia=int(defs["IA"]), ib=int(defs["IB"]))
    path = core.write_replay("C02", oid, data)
    ok = False
    if sub:
        ok = replaylib.run_replay("C02", path)
    rep.violation(oid, path, nofail=not ok)


def replay(path):
    ok = replaylib.run_replay("C02", path)
    print("reproduced" if ok else "not reproduced")
    return 1 if ok else 0
