"""C11 -- averaging and low-pass filters remove exactly the documented fast oscillations (DESIGN 8, C11)."""
import os

import core
import extract
import l2
import replaylib

WHAT = {1: ("pair_table", "SU_vector::PrepareEvolve(double*,double) + PreSinCosEvolSU%d.txt", 0),
        2: ("avg", "SU_vector::PrepareEvolve(double*,double,double,vector<bool>&) + PreSinCosEvolSU%dAvg.txt", 1),
        3: ("lowpass", "SU_vector::LowPassFilter + LowPassFilterSU%d.txt + ApplyLowPassRamp.txt", 2),
        4: ("avgramp", "SU_vector::AvgRampFilter + AvgWithRampSU%d.txt + ApplyLowPassRamp.txt", 3),
        5: ("avgrange.formula", "SU_vector::PrepareEvolve(double*,double,double) + PreSinCosEvolSU%dAvgRange.txt", 4),
        6: ("avgrange.coincident", "SU_vector::PrepareEvolve(double*,double,double) + PreSinCosEvolSU%dAvgRange.txt", 4),
        7: ("ramp_rejected", "SU_vector::LowPassFilter / AvgRampFilter guard (d=%d)", 0)}


def pair_of(d, p):
    q = 0
    for j in range(d):
        for k in range(j + 1, d):
            if q == p:
                return j, k
            q += 1


def run(rep, tier):
    bdir, inc = l2.std_setup(rep, "C11")
    ctext = extract.instantiate(open(os.path.join(core.VERIF, "contracts", "C11_l2.c")).read(), rep)
    rep.dropped.append("methods -> free functions (`*this` -> pointer); std::vector<bool>& avr -> _Bool*; kernels R1/R3; fabs -> |x| in the reals; "
                       "sin/cos Ackermannised; one VC per table slot (cone-of-influence sliced)")
    rep.assume("H diagonal; antiderivatives of sin/cos (the exact interval average is (sin wt1 - sin wt0)/(w(t1-t0)) resp. (cos wt0 - cos wt1)/(w(t1-t0)))")
    rep.assume("the sign convention of each table slot is the one of the unaveraged table, which C03 (two-step = direct) ties to the consumer SinCosEvolSU{d}")
    rep.assume("SMT-LIB division is total: a postcondition about x/0 can never be proved, so the coincident-level obligations fail rather than pass vacuously")
    timeout = 120 if tier == "quick" else 600
    qs = []
    for d in (2, 3, 4, 5, 6):
        npairs = d * (d - 1) // 2
        for w, (nm, fn, rk) in WHAT.items():
            if w in (1, 7):
                qs.append(l2.Query("%s.d%d" % (nm, d), ctext, ["D=%d" % d, "WHAT=%d" % w], trig=True, timeout=timeout,
                                   function=fn % d, where="include/SQuIDS/SUNalg.h"))
            else:
                for p in range(npairs):
                    j, k = pair_of(d, p)
                    qs.append(l2.Query("%s.d%d.pair%d%d" % (nm, d, j, k), ctext, ["D=%d" % d, "WHAT=%d" % w, "PSEL=%d" % p], trig=True,
                                       timeout=timeout, function=fn % d, where="include/SQuIDS/SUNalg.h"))

    def witness(q, sub):
        df = l2.defs_of(q)
        return dict(family="averaging", what=WHAT[int(df["WHAT"])][2], d=int(df["D"]), seed=core.SEED)
    l2.run_symbolic(rep, "C11", qs, bdir, inc, witness=witness, replay_prog="algebra", workers=core.NCPU)


def replay(path):
    ok = replaylib.run_replay("C11", path, prog="algebra")
    print("reproduced" if ok else "not reproduced")
    return 1 if ok else 0
