"""C19 -- the block cache (DESIGN 8, C19): sequential LIFO contracts for both configurations, from an arbitrary well-formed state
(induction over all sequential histories), capacities 1..4; hand-over under interference by ownership (payload of a released record
is havocked); local obligations of the compare-and-swap loops.  Linearisability of the two CAS loops themselves is TRUSTED."""
import os

import core
import extract
import l1
import replaylib

INC = [os.path.join(core.REPO, "include", "SQuIDS"), os.path.join(core.VERIF, "spec")]
OPS = {0: "cache::cache()", 1: "cache::insert", 2: "cache::get"}


def jobs_for(ct, caps=(1, 2, 3, 4)):
    jobs = []
    for tl, own, tag in ((1, 0, "threadlocal"), (0, 0, "shared"), (0, 1, "shared.ownership")):
        for cap in caps:
            for op in (0, 1, 2):
                if own and op == 0:
                    continue
                defs = ["CAP=%d" % cap, "OP=%d" % op] + (["SQUIDS_THREAD_LOCAL=thread_local"] if tl else []) + (["OWNERSHIP"] if own else [])
                jobs.append(l1.Job("cache.%s.N%d.%s" % (tag, cap, OPS[op].split("::")[1].replace("()", "ctor")), ct, "main", includes=INC, defines=defs,
                                   unwind=cap + 4, complete=True, timeout=600, function_label="detail::cache<T,%d>::%s (%s)" % (cap, OPS[op].split("::")[1], tag),
                                   where="include/SQuIDS/detail/Cache.h"))
    # shared configuration under interference: local linearisation obligations of the two CAS loops (asserted at the successful CAS)
    for cap in caps:
        for op, nm in ((3, "pop"), (4, "push")):
            jobs.append(l1.Job("cache.shared.interference.N%d.%s" % (cap, nm), ct, "main", includes=INC, defines=["CAP=%d" % cap, "OP=%d" % op, "INTERFERENCE"],
                               unwind=cap + 8, complete=True, timeout=600, function_label="detail::cache<T,%d>::%s (shared, under interference)" % (cap, nm),
                               where="include/SQuIDS/detail/Cache.h"))
    return jobs


def texts(rep):
    rep.dropped.append("class template cache<T,N> -> struct + free functions, N a compile-time macro (as in C++), T = SU_vector::mem_cache_entry; "
                       "the #ifdef SQUIDS_THREAD_LOCAL branches inside the bodies are kept and selected by the preprocessor exactly as in the C++ build; "
                       "std::atomic<list_head>::load / compare_exchange_weak -> sequential contracts (weak CAS may fail spuriously, at most twice per operation explored)")
    rep.assume("loops are bounded by the capacity N, a compile-time constant: complete unwinding (unwinding assertions are obligations)")
    rep.assume("TRUSTED, not proved: a Treiber stack with a version-stamped head is linearisable, i.e. pop/push implement their atomic specifications under "
               "every interleaving (CBMC 6.11 refuses the intrusive `next` pointers in its concurrency mode); what is proved about the CAS loops is local: "
               "the whole (counter,index) pair is compared and a successful CAS installs counter+1")
    rep.assume("interference at the CAS loops: before any compare-and-swap other threads may have completed operations -- the head then carries a different version "
               "(each foreign successful CAS bumps it; 2^32 foreign operations inside one retry window excluded) and the links of all records not owned by this thread "
               "are arbitrary; at most 2 such interference points and 2 spurious failures per operation are explored (loop then unwound completely); obligations: the "
               "successor installed by pop / the link written by push are the ones valid in the state the successful CAS acts on")
    rep.assume("interference is modelled by ownership: a record pushed onto a list may be taken and overwritten by another thread at once (payload havocked)")
    rep.trust("CBMC 6.11 symbolic execution and SAT back end")


def run(rep, tier):
    bdir = core.builddir("C19")
    ct = extract.instantiate(open(os.path.join(core.VERIF, "contracts", "cache_l1.c")).read(), rep)
    texts(rep)
    jobs = jobs_for(ct)
    for res in core.pmap(lambda j: l1.run_job(j, bdir), jobs):
        for p in l1.record(rep, res, "C19"):
            oid = "C19.%s.%s" % (res.job.name, p.name)
            data = dict(obligation=p.name, description=p.desc, location=p.loc, verifier="cbmc", witness=dict(scenario="cache"))
            path = core.write_replay("C19", oid, data)
            ok = replaylib.run_replay("C19", path, prog="C19")
            rep.violation(oid, path, nofail=not ok)


def replay(path):
    ok = replaylib.run_replay("C19", path, prog="C19")
    print("reproduced" if ok else "not reproduced")
    return 1 if ok else 0
