"""C07 (conformance only; level other): the Pade matrix exponential.
What a contract can decide here is that the code *is* Higham's algorithm: the accuracy theorem of that algorithm (Higham 2005/2009, Al-Mohy & Higham
2009) is a floating-point backward-error statement outside the reach of CBMC/SMT and is trusted.  Obligations:
  pade<m>     U+V / V-U are the [m/m] Pade numerator/denominator polynomials (scalar homomorphism, all a), m = 3,5,7,9,13
  tail        order-13 path: scaling exponent, consistency of the scaled powers handed to pade13, repeated squaring      (bounded: s0 <= 2)
  diag        diagonal test / fast path, n = 2..6
  guard       the norm estimator accepts every order n in 2..6 with its default block size
"""
import os, re, sys
from math import factorial as f
sys.path.insert(0, os.path.join(os.path.dirname(os.path.abspath(__file__)), "..", "tools"))
import core, extract, l2, replaylib

LEVEL = "other"
EXPLANATION = ("conformance of src/MatrixExp.cpp to the Pade scaling-and-squaring algorithm, decided on mechanically extracted code: polynomial assembly for all "
               "five orders (for all scalars), order-13 scaling/squaring path (bounded), diagonal dispatch for n=2..6, estimator argument guards.  The accuracy "
               "statement of C07 itself (error <= small multiple of u * cond) is NOT decided: it rests on Higham's backward-error theorem (trusted) and on "
               "solve_P_Q/LU, one_normest_core's iteration, ell and gsl_complex_exp, which are outside the contracts (listed under trusted_base).")
B0 = {3: 120, 5: 30240, 7: 17297280, 9: 17643225600, 13: 64764752532480000}
FN = "math_detail::"


def pade_coeffs(m):
    return [B0[m] * f(2 * m - k) * f(m) // (f(2 * m) * f(k) * f(m - k)) for k in range(m + 1)]


def witness_for(name):
    """map an obligation to a concrete input of the native replay (the scalar counterexample only selects the branch)"""
    if name.startswith("pade"):
        m = int(name[4:])
        norm = {3: 0.01, 5: 0.2, 7: 0.6, 9: 1.8, 13: 6.0}[m]
        return dict(n=[3], kind=[0], norm=[norm])
    if name.startswith("diag"):
        return dict(n=[int(name[4:])], kind=[5], norm=[0.7])
    if name.startswith("ell"):
        return dict(n=[3], kind=[4], norm=[700.0])
    if name.startswith("solve"):
        return dict(n=[3], kind=[0], norm=[0.2])
    if name.startswith("dispatch"):
        return dict(n=[3], kind=[0], norm=[0.95])
    if name.startswith("guard"):
        return dict(n=[2], kind=[0], norm=[1.0])
    if name.startswith("tail"):
        return dict(n=[4], kind=[1], norm=[40.0])
    return None


def run(rep, tier):
    bdir, inc = l2.std_setup(rep, "C07")
    ct = extract.instantiate(open(os.path.join(core.VERIF, "contracts", "C07_l2.c")).read(), rep)
    src = extract.strip_comments(core.repo_read("src/MatrixExp.cpp"))
    m = re.search(r'double\s+one_normest_core\s*\(\s*const\s+gsl_matrix_complex\s*\*\s*A\s*,\s*unsigned\s+int\s+t\s*=\s*(\d+)\s*,\s*unsigned\s+int\s+itmax\s*=\s*(\d+)\s*\)\s*;', src)
    if not m:
        raise core.ExtractionError("default arguments of one_normest_core not found")
    rep.rule("normest.defaults", 1)
    rep.dropped.append("MatrixExp.cpp: SQUIDS_THREAD_LOCAL holders -> local structs reset to arbitrary contents; std::vector<double> b{..} -> const array; "
                       "std::max/min/ceil(log(x)/M_LN2)/pow -> the stubs of contracts/C07_l2.c; throw -> ghost flag; bodies cut by from=/until= statement ranges")
    tmo = 120 if tier == "quick" else 600
    qs = []
    for mm in (3, 5, 7, 9, 13):
        qs.append(l2.Query("pade%d" % mm, ct, ["MODE=1", "M=%d" % mm, "PADE_B=" + ",".join("%d.0" % b for b in pade_coeffs(mm))],
                           timeout=tmo, function=FN + "pade%d" % mm, where="src/MatrixExp.cpp"))
    for e, u0 in [(e, u0) for e in (0, 1) for u0 in range(-3, 3)]:
        qs.append(l2.Query("tail.u%d.ell%d" % (u0, e), ct, ["MODE=2", "ELL=%d" % e, "U0=%d" % u0], timeout=2 * tmo, unwind=24, function=FN + "matrix_exponential[order-13 path]",
                           where="src/MatrixExp.cpp"))
    for n in range(2, 7):
        qs.append(l2.Query("diag%d" % n, ct, ["MODE=3", "N=%d" % n], timeout=2 * tmo, function=FN + "matrix_exponential[diagonal dispatch]",
                           where="src/MatrixExp.cpp"))
    # published thresholds theta_m (Higham 2005 Table 2.3 / Al-Mohy & Higham 2009): independent of the code
    th = {3: "1.495585217958292e-2", 5: "2.539398330063230e-1", 7: "9.504178996162932e-1", 9: "2.097847961257068e0"}
    for bits in range(16):
        es = [(bits >> k) & 1 for k in range(4)]
        qs.append(l2.Query("dispatch.ell%d%d%d%d" % tuple(es), ct, ["MODE=5"] + ["TH%d=%s" % kv for kv in th.items()] +
                           ["ELL%d=%d" % (m, e) for m, e in zip((3, 5, 7, 9), es)], timeout=2 * tmo, unwind=16,
                           function=FN + "matrix_exponential[order selection]", where="src/MatrixExp.cpp"))
    for mm in (3, 5, 7, 9, 13):
        for cv in (-1, 0, 2):
            qs.append(l2.Query("ell.m%d.ceil%d" % (mm, cv), ct, ["MODE=7", "MM=%d" % mm, "CEILV=%d" % cv], timeout=tmo, unwind=10, function=FN + "ell", where="src/MatrixExp.cpp"))
    qs.append(l2.Query("solve_P_Q", ct, ["MODE=6"], timeout=tmo, unwind=6, function=FN + "solve_P_Q", where="src/MatrixExp.cpp"))
    qs.append(l2.Query("guard", ct, ["MODE=4", "NE_T=%s" % m.group(1), "NE_ITMAX=%s" % m.group(2)], timeout=60,
                       function=FN + "one_normest_core[argument guards]", where="src/MatrixExp.cpp"))
    res = core.pmap(lambda q: l2.run_query(q, bdir, inc), qs, workers=max(2, core.NCPU // 2))
    for q, r in zip(qs, res):
        bounded = "order-13 path explored for eta_5 <= 17 (at most 2 scaling steps before ell) and ell in {0,1}" if q.name.startswith("tail") else None
        oid = "C07.L2.%s" % q.name
        for c in r.cmds:
            rep.cmd(re.sub(r'/\S*/\.build/\S*?/', '', c))
        rep.add(oid, q.function, "L2", r.backend or "smt", r.status, r.seconds, q.where, r.detail, bounded=bounded)
        if r.status == "failed":
            w = witness_for(q.name)
            path = core.write_replay("C07", oid, dict(obligation=oid, verifier_output=r.detail[:4000], witness=w, model=getattr(r, "model", None)))
            ok = False
            if w:
                try:
                    ok = replaylib.run_replay("C07", path, "C07")
                except Exception as ex:          # replay build failure: still a violation, but without a reproduced input
                    rep.notes.append("native replay failed to run: %s" % ex)
            rep.violation(oid, path, nofail=not ok)
    rep.trust("Higham's backward-error theorem for [m/m] Pade scaling and squaring (accuracy given conformance) -- not formalised")
    rep.trust("GSL LU factorisation/solve (assumed contract inside solve_P_Q), one_normest_core main iteration, one_normest_matrix_power/product (the estimates ell and the order selection consume), "
              "gsl_complex_exp, gsl_blas_zgemm: outside the contracts; zgemm/exp/solve are replaced by their mathematical contracts")
    rep.assume("scalar homomorphism: pade<m> and the order-13 path use only ring operations on {A, id, A2, A4, A6} through gsl_matrix_complex_mul/add, "
               "zgemm, scale, memcpy (the helpers' extracted bodies are executed on 1x1 complex matrices); a defect that depends on n>1 indexing inside "
               "those helpers is not covered here")
    rep.assume("thread-local scratch reuse ('whatever was exponentiated before'): holders are modelled as freshly reset to arbitrary contents (holder_reset "
               "havocs the data), so no obligation depends on their previous contents; the RNG state of the estimator is outside the contracts")


def replay(path):
    ok = replaylib.run_replay("C07", path, "C07")
    print("reproduced" if ok else "not reproduced")
    return 1 if ok else 0
