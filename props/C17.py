"""C17 -- node grids and lookup (DESIGN 8, C17)."""
import os

import core
import extract
import l1
import replaylib

INC = [os.path.join(core.REPO, "include", "SQuIDS"), os.path.join(core.VERIF, "spec")]


def run(rep, tier):
    bdir = core.builddir("C17")
    tpl = open(os.path.join(core.VERIF, "contracts", "C17_get_i.c")).read()
    ctext = extract.instantiate(tpl, rep)
    rep.dropped.append("Get_i: `this` (members nx, x passed as parameters); std::vector<double>::operator[] -> array read "
                       "(SQ_RD = read + assume(!isnan), instantiating the no-NaN grid precondition); exception object -> ghost sq_thrown")
    rep.assume("Get_i: grid values and xi are not NaN (precondition); grid length <= 10^6 (DFCC object-size bound, not a loop bound)")
    rep.trust("CBMC 6.11 DFCC instrumentation and SAT back end")
    jobs = [l1.Job("Get_i", ctext, "h_Get_i", enforce="Get_i", loops=True, includes=INC, timeout=600,
                   where="src/SQuIDS.cpp Get_i")]
    tpl2 = open(os.path.join(core.VERIF, "contracts", "C17_xrange.c")).read()
    ctext2 = extract.instantiate(tpl2, rep)
    rep.dropped.append("Set_xrange: std::string compared with literals -> strcmp; std::vector copy assignment and std::is_sorted -> assumed contracts; exp/log uninterpreted")
    rep.assume("std::is_sorted returns true only if no adjacent pair descends (libstdc++); vector copy-assignment copies element-wise")
    rep.assume("libm exp/log are monotone and exp(log a) is within a few ulp of a (first/last node of the log grid); "
               "monotonicity in k of a+(b-a)*k/(n-1) rests on monotonicity of correctly rounded IEEE * / + (checked bounded only, thorough tier)")
    jobs.append(l1.Job("Set_xrange_ab", ctext2, "h_Set_xrange3", enforce="Set_xrange3", loops=True, includes=INC, timeout=600,
                       where="src/SQuIDS.cpp Set_xrange(double,double,string)"))
    jobs.append(l1.Job("Set_xrange_vec", ctext2, "h_Set_xrange1", enforce="Set_xrange1", replace=["sq_is_sorted", "sq_vassign"],
                       includes=INC, timeout=300, where="src/SQuIDS.cpp Set_xrange(vector)"))
    results = core.pmap(lambda j: l1.run_job(j, bdir), jobs)
    res = results[0]
    failed = l1.record(rep, res, "C17")
    for r in results[1:]:
        l1.record(rep, r, "C17")
    timed_out = bool(getattr(res, "error", None)) and not res.props
    if timed_out:
        # the unbounded proof attempt did not finish (e.g. floating-point index arithmetic in the body): look for a REAL counterexample with the bounded
        # variant; a refutation found there is a violation (replayed natively), no refutation leaves the property undecided (exit 2)
        class _P:            # stands for the obligation of the bounded variant
            name, desc, loc, trace = "bounded_refutation", "Get_i: xi inside the grid is bracketed by the returned interval (bounded variant, nx<=6)", "contracts/C17_get_i.c h_bounded", None
        failed = [_P]
    if failed:
        # inductive counterexamples may be unreachable: obtain a reachable witness with the bounded variant
        nxb = 6
        bj = l1.Job("Get_i_bounded", ctext, "h_bounded", defines=["BOUNDED", "NXB=%d" % nxb], unwind=nxb + 2,
                    includes=INC, timeout=600, bound_text="nx<=%d, whole grid symbolic" % nxb)
        bres = l1.run_job(bj, bdir)
        wit = None
        for p in bres.props:
            if p.status == "FAILURE" and "bounded" in p.desc and p.trace:
                wit = l1.trace_inputs(p.trace)
                break
        if timed_out and not wit:
            failed = []          # nothing refuted: stays undecided through the recorded time-out
        elif timed_out:
            rep.add("C17.Get_i.bounded_refutation", "SQuIDS::Get_i", "L1", "cbmc-sat-unwind%d" % (nxb + 2), "failed", bres.seconds if hasattr(bres, "seconds") else 0.0,
                    "src/SQuIDS.cpp Get_i", "bounded variant refuted the bracketing postcondition", bounded="nx<=%d" % nxb)
        for p in failed:
            oid = "C17.Get_i." + p.name
            data = dict(obligation=p.name, description=p.desc, location=p.loc, verifier="cbmc/dfcc",
                        inductive_cex=l1.trace_inputs(p.trace, r'^(x|nx|xi|nl|nr|xl|xr)$'))
            if wit:
                nx = int(wit.get("in_nx", "0").rstrip("u") or 0)
                xs = [wit.get("in_x[%dl]" % k, wit.get("in_x[%d]" % k)) for k in range(nx)]
                data["witness"] = dict(nx=nx, x=xs, xi=wit.get("in_xi"))
                path = core.write_replay("C17", oid, data)
                ok = replaylib.run_replay("C17", path)
                data["reproduced"] = ok
                core.write_replay("C17", oid, data)
                rep.violation(oid, path, nofail=not ok)
            else:
                data["verifier_output"] = res.log[-2000:]
                path = core.write_replay("C17", oid, data)
                rep.violation(oid, path, nofail=True)

    # node values of Set_xrange(a,b,scale): real-arithmetic VCs, one per grid length (bounded stand-in, never counted as proved)
    import l2
    ct3 = extract.instantiate(open(os.path.join(core.VERIF, "contracts", "C17_l2.c")).read(), rep)
    qs = []
    for nx in (range(2, 9) if tier == "quick" else range(2, 17)):
        for nm in ("linear", "Linear", "lin", "Lin"):
            qs.append(l2.Query("nodes.%s.nx%d" % (nm, nx), ct3, ["NX=%d" % nx, "SCALE=0", "TOK_LINNAME=TOK_" + nm], timeout=120, unwind=nx + 2,
                               function="SQuIDS::Set_xrange(double,double,string) [node values]", where="src/SQuIDS.cpp"))
        for nm in ("log", "Log"):
            qs.append(l2.Query("nodes.%s.nx%d" % (nm, nx), ct3, ["NX=%d" % nx, "SCALE=1", "TOK_LOGNAME=TOK_" + nm], timeout=120, unwind=nx + 2,
                               function="SQuIDS::Set_xrange(double,double,string) [node values]", where="src/SQuIDS.cpp"))
    rep.assume("node values: machine arithmetic treated as mathematical; exp/log known only as mutually inverse strictly increasing functions")
    # linear scale, EVERY grid length: loop contract on the extracted loop, real arithmetic (not a bounded stand-in)
    ct4 = extract.instantiate(open(os.path.join(core.VERIF, "contracts", "C17_l2u.c")).read(), rep)
    rep.assume("unbounded node-value VCs: unsigned->double conversion of the loop counter is value preserving (uninterpreted sq_u2r with ground instances of "
               "non-negativity, zero, monotonicity, successor); goto-instrument --apply-loop-contracts (non-DFCC) is trusted to generate base and step")
    uq = [l2.Query("nodes_unbounded.%s" % nm, ct4, ["SCALE=0", "TOK_LINNAME=TOK_" + nm], timeout=120, loop_contracts=2, u2r=True,
                   function="SQuIDS::Set_xrange(double,double,string) [node values, every nx]", where="src/SQuIDS.cpp") for nm in ("linear", "Linear", "lin", "Lin")]
    uq += [l2.Query("nodes_unbounded.%s" % nm, ct4, ["SCALE=1", "TOK_LOGNAME=TOK_" + nm], timeout=120, loop_contracts=2, u2r=True, explog=True,
                    function="SQuIDS::Set_xrange(double,double,string) [node values, every nx]", where="src/SQuIDS.cpp") for nm in ("log", "Log")]
    rep.assume("unbounded log-scale node values: libm exp strictly increasing, log strictly increasing on positive reals, exp(log a)=a (ground instances; libm trusted)")
    for q, r in zip(uq, core.pmap(lambda q: l2.run_query(q, bdir, [bdir, os.path.join(core.VERIF, "spec")]), uq)):
        oid = "C17.L2." + q.name
        rep.add(oid, q.function, "L2", (r.backend or "smt") + "+loop-contract", r.status, r.seconds, q.where,
                (r.detail or "") + " [%d loop-invariant step obligations in the VC]" % getattr(r, "n_loop_obligations", 0))
        if r.status == "failed":
            rep.violation(oid, core.write_replay("C17", oid, dict(obligation=oid, verifier_output=r.detail[:3000], reproduced=None)), nofail=True)
    for q, r in zip(qs, core.pmap(lambda q: l2.run_query(q, bdir, [bdir, os.path.join(core.VERIF, "spec")]), qs)):
        oid = "C17.L2." + q.name
        rep.add(oid, q.function, "L2", r.backend or "smt", r.status, r.seconds, q.where, r.detail, bounded="grid length nx = %s" % q.name.split("nx")[-1])
        if r.status == "failed":
            rep.violation(oid, core.write_replay("C17", oid, dict(obligation=oid, verifier_output=r.detail[:3000], reproduced=None)), nofail=True)

def replay(path):
    ok = replaylib.run_replay("C17", path)
    print("reproduced" if ok else "not reproduced")
    return 1 if ok else 0
