"""C10 -- numerical evolution solves exactly the documented kinetic equation (DESIGN 8, C04).  What is decided: the assembly of the
right-hand side and the driver set-up (contracts on Derive / set_system_pointers / RHS / Evolve with ghost call logs).  That GSL's
steppers integrate y'=f(t,y) to tolerance is an ASSUMED contract of the GSL driver."""
import os

import core
import extract
import l1
import replaylib

LEVEL = "other"
EXPLANATION = ("contract checking of the real Derive/set_system_pointers/RHS/Evolve bodies with ghost call logs; every obligation is discharged by CBMC but only inside a bound on "
               "(nx,nrhos,nscalars): labelled bounded, not counted as proved; all other inputs (nsun in 2..6, times, state, hook values, 2^5 switches) are unrestricted")
INC = [os.path.join(core.REPO, "include", "SQuIDS"), os.path.join(core.VERIF, "spec")]
JOBS = {"Derive": ("SQuIDS::Derive", "C04 C10"), "set_system_pointers": ("SQuIDS::set_system_pointers", "C04 C10"), "RHS": ("squids::RHS", "C10"),
        "Evolve": ("SQuIDS::Evolve", "C04 C10"), "ini": ("SQuIDS::ini", "C10")}


def texts(rep, nb):
    rep.dropped.append("class SQuIDS -> struct + free functions (`self`); std::unique_ptr<T[]> members -> T*; virtual user hooks -> ghost-logging functions returning arbitrary values; "
                       "statements with overloaded SU_vector operators -> calls by the closed statement-form table of DESIGN App. E (must-fire); "
                       "GSL driver calls -> logged stubs (assumed contract); exception -> ghost flag")
    rep.assume("GSL: gsl_odeiv2_driver_apply / apply_fixed_step call sys.function finitely often on buffers of sys.dimension doubles and return the solution at the end "
               "time within tolerance, leaving *t at the end time on success (the closed-form comparisons of the property are not decided here)")
    rep.assume("SU_vector operations inside Derive/Evolve are represented by their contracts (C02 values, C08/C09 policy): iCommutator/ACommutator fused assignment, +=, SetAllComponents, SetBackingStore")
    rep.assume("BOUNDED: nx<=%d, nrhos<=%d, nscalars<=%d (loops unwound completely inside the bound; nsun in 2..6 symbolic, all 2^5 term switches symbolic)" % nb)
    rep.trust("CBMC 6.11 symbolic execution and SAT back end")


def run_jobs(rep, pid, tier):
    bdir = core.builddir(pid)
    nb = (2, 2, 2) if tier == "quick" else (3, 3, 2)      # largest (nx,nrhos,nscalars) explored; one job per size triple and switch setting
    ct = extract.instantiate(open(os.path.join(core.VERIF, "contracts", "squids_l1.c")).read(), rep)
    texts(rep, nb)
    rep.bounded.append(dict(function="SQuIDS::Derive / set_system_pointers / RHS / Evolve", bound="nx<=%d nrhos<=%d nscalars<=%d" % nb,
                            what="assembly of the right-hand side, view layout, driver set-up, clock"))
    jobs = []
    triples = [(1, 1, 0), (2, 2, 2), (2, 1, 1)] if tier == "quick" else [(1, 1, 0), (1, 2, 1), (2, 1, 1), (2, 2, 2), (3, 2, 1), (3, 3, 2)]
    for n, (label, props) in JOBS.items():
        if pid not in props.split():
            continue
        for (a, b, c) in triples:
            flagsets = range(32) if n == "Derive" else ([0, 32, 96] if n == "Evolve" else [0])
            if n == "Derive" and tier == "quick" and (a, b, c) == (2, 2, 2):
                flagsets = [0, 10, 21, 31]      # the largest layout with a sample of switch settings in the quick tier (all 32 in thorough; all 32 for the smaller layouts)
            for fl in flagsets:
                jobs.append(l1.Job("%s.nx%d.nrhos%d.nsc%d.flags%d" % (n, a, b, c, fl), ct, "h_" + n, includes=INC,
                                   defines=["NXB=%d" % a, "NRB=%d" % b, "NSB=%d" % c, "EXACT_SIZES", "FLAGS=%d" % fl], unwind=(50 if n == "ini" else max(a, b, c) + 2),
                                   timeout=900, slice_formula=True, sat_solver="cadical", bound_text="nx=%d,nrhos=%d,nscalars=%d" % (a, b, c),
                                   function_label=label, where="src/SQuIDS.cpp"))
    # two extra job families that keep floating-point comparisons within the SAT back end's reach by fixing one operand:
    #   Evolve with nsteps = 4 (step size dt/nsteps compared), Derive with the in-step scalars set to distinct powers of two (the factor s of -GammaScalar*s is seen)
    if "Evolve" in JOBS and pid in JOBS["Evolve"][1].split():
        jobs.append(l1.Job("Evolve.nx2.nrhos1.nsc1.flags32.nsteps4", ct, "h_Evolve", includes=INC,
                           defines=["NXB=2", "NRB=1", "NSB=1", "EXACT_SIZES", "FLAGS=32", "FIXED_NSTEPS=4"], unwind=4, timeout=900, slice_formula=True, sat_solver="cadical",
                           bound_text="nx=2,nrhos=1,nscalars=1,nsteps=4", function_label=JOBS["Evolve"][0], where="src/SQuIDS.cpp"))
    if "Derive" in JOBS and pid in JOBS["Derive"][1].split():
        for fl in (8, 16):
            jobs.append(l1.Job("Derive.nx2.nrhos1.nsc2.flags%d.scalars" % fl, ct, "h_Derive", includes=INC,
                               defines=["NXB=2", "NRB=1", "NSB=2", "EXACT_SIZES", "FLAGS=%d" % fl, "SCALAR_CONSTS"], unwind=4, timeout=900, slice_formula=True, sat_solver="cadical",
                               bound_text="nx=2,nrhos=1,nscalars=2, in-step scalars = distinct powers of two", function_label=JOBS["Derive"][0], where="src/SQuIDS.cpp"))
    tpl = open(os.path.join(core.VERIF, "contracts", "squids_l1.c")).read().split("\n")
    import re
    for res in core.pmap(lambda j: l1.run_job(j, bdir), jobs):
        keep = []
        for p in res.props:
            m = re.match(r'template:(\d+)', p.loc or "")
            tags = set(re.findall(r'\bC\d\d\b', p.desc)) if p.desc else set()
            if tags and pid not in tags:
                continue
            keep.append(p)
        res.props = keep
        for p in l1.record(rep, res, pid):
            oid = "%s.%s.%s" % (pid, res.job.name, p.name)
            data = dict(obligation=p.name, description=p.desc, location=p.loc, verifier="cbmc",
                        cex=l1.trace_inputs(p.trace, r'^(S|at|dt|ge|gi|same_e|same_d|g_gsl_status)$'), witness=dict(scenario=res.job.name, seed=core.SEED))
            path = core.write_replay(pid, oid, data)
            ok = replaylib.run_replay(pid, path, prog="solver")
            rep.violation(oid, path, nofail=not ok)


MEMBERS = ("CoherentRhoTerms NonCoherentRhoTerms OtherRhoTerms GammaScalarTerms OtherScalarTerms AnyNumerics is_init adaptive_step x t t_ini nsteps size_rho size_state "
           "system step sys h h_min h_max abs_error rel_error dstate last_dstate_ptr last_estate_ptr nx nsun nrhos nscalars params state estate").split()


def declared_members(rep):
    """data members of class SQuIDS as declared in the header (between `class SQuIDS {` and the first constructor)"""
    import re
    txt = extract.strip_comments(core.repo_read("include/SQuIDS/SQuIDS.h"))
    m = re.search(r'class\s+SQuIDS\s*\{', txt)
    e = re.search(r'\n\s*SQuIDS\s*\(\s*\)\s*;', txt)
    if not m or not e:
        raise core.ExtractionError("class SQuIDS declaration not found")
    body = txt[m.end():e.start()]
    body = re.sub(r'struct\s+SU_state\s*\{[^}]*\}\s*;', '', body)
    names = []
    for st in body.split(';'):
        st = re.sub(r'\b(private|protected|public)\s*:', '', st).strip()
        if not st or '(' in st or st.startswith('friend') or st.startswith('#'):
            continue
        decl = re.sub(r'<[^<>]*(<[^<>]*>[^<>]*)*>', '', st)          # template arguments
        parts = decl.split(',')
        first = re.findall(r'[A-Za-z_]\w*', parts[0])
        if first:
            names.append(first[-1])
        for p in parts[1:]:
            w = re.findall(r'[A-Za-z_]\w*', p)
            if w:
                names.append(w[-1])
    rep.rule("squids.members.declared", len(names))
    return names


def run_value_ops(rep, pid, which=("move_assign", "move_ctor", "setters")):
    """unbounded part: move construction / move assignment / switch setters under DFCC contracts (all member values symbolic), recorded for `pid`"""
    decl = declared_members(rep)
    if sorted(decl) != sorted(MEMBERS):
        raise core.ExtractionError("data members of class SQuIDS differ from the contract's member list: declared-only %s, contract-only %s" %
                                   (sorted(set(decl) - set(MEMBERS)), sorted(set(MEMBERS) - set(decl))))
    bdir = core.builddir(pid + ".move")
    ct = extract.instantiate(open(os.path.join(core.VERIF, "contracts", "squids_move_l1.c")).read(), rep)
    rep.dropped.append("move operations: owning members (std::vector, unique_ptr, Const) -> handles, std::move(other.m) -> sq_take(&other->m); `*this` return dropped")
    jobs = []
    if "move_assign" in which:
        jobs.append(l1.Job("move_assign", ct, "h_move_assign", enforce="SQuIDS_move_assign", includes=INC, timeout=300, function_label="SQuIDS::operator=(SQuIDS&&)", where="src/SQuIDS.cpp"))
    if "move_ctor" in which:
        jobs.append(l1.Job("move_ctor", ct, "h_move_ctor", enforce="SQuIDS_move_ctor", includes=INC, timeout=300, function_label="SQuIDS::SQuIDS(SQuIDS&&)", where="src/SQuIDS.cpp"))
    if "setters" in which:
        for nm in ("CoherentRhoTerms", "NonCoherentRhoTerms", "OtherRhoTerms", "GammaScalarTerms", "OtherScalarTerms"):
            jobs.append(l1.Job("Set_" + nm, ct, "h_Set_" + nm, enforce="SQuIDS_Set_" + nm, includes=INC, timeout=120, function_label="SQuIDS::Set_" + nm, where="src/SQuIDS.cpp"))
    for res in core.pmap(lambda j: l1.run_job(j, bdir), jobs):
        for p in l1.record(rep, res, pid):
            oid = "%s.%s.%s" % (pid, res.job.name, p.name)
            data = dict(obligation=p.name, description=p.desc, location=p.loc, verifier="cbmc/dfcc", witness=dict(scenario=res.job.name, seed=core.SEED))
            path = core.write_replay(pid, oid, data)
            ok = replaylib.run_replay(pid, path, prog="solver")
            rep.violation(oid, path, nofail=not ok)


def run(rep, tier):
    run_jobs(rep, "C10", tier)
    run_value_ops(rep, "C10")


def replay(path):
    ok = replaylib.run_replay("C10", path, prog="solver")
    print("reproduced" if ok else "not reproduced")
    return 1 if ok else 0
