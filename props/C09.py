"""C09 -- fused expression evaluation equals naive evaluation (DESIGN 8, C09): policy side (assignProxy, proxy constructor,
conversion to a temporary, wrapper dispatch) x kernel side (every compute() writes each component exactly once through the wrapper)."""
import replaylib
import suvfam_scen
from props import suvfam


def run(rep, tier):
    fam = suvfam.Fam(rep, "C09")
    suvfam.std_texts(rep)
    rep.assume("kernel values: the Layer-2 postconditions of C01 (element-wise), C02 (commutators), C03 (evolution) describe the value each compute() stores; "
               "here: each target component is written exactly once, through the extracted wrapper body (=, +=, -=), the target is touched only through the wrapper, operands are not modified")
    rep.assume("the stored VALUE is abstracted (arbitrary double) in the kernel jobs: their obligations are data independent; user element-wise functors are pure")
    rep.assume("dimensions in the policy jobs are restricted to {2,3}: assignProxy depends on sizes only through equality")
    fam.add_proxy()
    fam.add_kernels()
    suvfam_scen.extra(fam, "C09")        # proxy-building entry points: operand order and movable flags as written in the statement
    fam.run(scenario=suvfam_scen.scenario)


def replay(path):
    ok = replaylib.run_replay("C09", path, prog="lifecycle")
    print("reproduced" if ok else "not reproduced")
    return 1 if ok else 0
