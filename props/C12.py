"""C12 (partial; level other): SU_vector::GetEigenSystem.  See contracts/C12_l2.c for what is and is not decided."""
import os, re
import core, extract, l2, replaylib

LEVEL = "other"
EXPLANATION = ("partial: dispatch/sort/allocation contract of GetEigenSystem for every dimension 2..6 (GSL's eigensolver and sort are assumed contracts), and division safety of "
               "the dim-3 closed form where the divisor is expressible without cube roots (k2 and the complex temporary a5).  That the closed form returns eigenpairs, "
               "unitarity and the behaviour on near-degenerate spectra are NOT decided (cbrt/arg/cos of a third of an angle are outside the solvers' reach).")
FN = "SU_vector::GetEigenSystem"


def a5_parts(rep):
    txt = extract.strip_comments(core.repo_read("include/SQuIDS/SU_inc/EigenSystemSU3.txt")).replace("\\\n", " ")
    m = re.search(r'std::complex<double>\s+a5\s*\{\s*([^,{}]+?)\s*,\s*([^,{}]+?)\s*\}\s*;', txt)
    if not m:
        raise core.ExtractionError("initialiser of the complex temporary a5 not found in EigenSystemSU3.txt")
    rep.rule("eig3.a5.init", 1)
    tail = txt[m.end():]
    # quotients whose divisor is a5 itself or a product that starts with a5:   /(3.*a5)   /(a5*( ... ))   /a5
    sites = len(re.findall(r'/\s*\(\s*(?:[0-9.]+\s*\*\s*)?a5\s*[*)]', tail)) + len(re.findall(r'/\s*a5\b', tail))
    rep.rule("eig3.a5.division_sites", sites)
    last = list(re.finditer(r'gsl_matrix_complex_set\s*\(\s*eigenvectors\s*,\s*2\s*,\s*2\s*,[^;]*;', txt))
    if not last:
        raise core.ExtractionError("last component store of the closed form not found")
    nnorm = len(re.findall(r'gsl_matrix_complex_normalize\s*\(\s*eigenvectors\s*\)', txt[last[-1].end():]))
    rep.rule("eig3.normalisations_at_end", nnorm)
    return m.group(1), m.group(2), sites, nnorm


def run(rep, tier):
    bdir = core.builddir("C12")
    inc = [bdir, os.path.join(core.VERIF, "spec")]
    ct = extract.instantiate(open(os.path.join(core.VERIF, "contracts", "C12_l2.c")).read(), rep)
    re5, im5, sites, nnorm = a5_parts(rep)
    rep.dropped.append("GetEigenSystem: unique_ptr/make_pair return -> the two raw pointers; `auto matrix` (unique_ptr, freed by RAII) -> raw pointer; "
                       "#include of the closed form -> one logged call; EigenSystemSU3.txt: text from the first std::complex temporary on is cut in MODE 2; "
                       "pow/cbrt/sqrt/arg/cos/sin -> stubs (roots vanish only at zero, everything else arbitrary)")
    rep.assume("machine arithmetic treated as mathematical (Real); assumed contracts: gsl_eigen_hermv returns an orthonormal eigen-decomposition of the Hermitian "
               "matrix it is given, gsl_eigen_hermv_sort(ASC) orders eigenvalues ascending and permutes columns accordingly, GetGSLMatrix is the matrix of C01")
    rep.trust("CBMC 6.11 symbolic execution (--outfile), tools/fp2real.py theory swap, z3 4.8.12 / 5.1, cvc5 1.0")
    qs = [l2.Query("dispatch", ct, ["MODE=1", "TXT_NORMALIZES=%d" % nnorm], timeout=60, function=FN, where="src/SUNalg.cpp", unwind=14),
          l2.Query("su3.normalises", ct, ["MODE=4", "TXT_NORMALIZES=%d" % nnorm], timeout=60, function=FN + "[EigenSystemSU3.txt, end]",
                   where="include/SQuIDS/SU_inc/EigenSystemSU3.txt"),
          l2.Query("su3.scalar.divisors", ct, ["MODE=2"], timeout=120, function=FN + "[EigenSystemSU3.txt, scalar part]", where="include/SQuIDS/SU_inc/EigenSystemSU3.txt"),
          l2.Query("su3.a5.nonzero", ct, ["MODE=3", "A5_RE=" + re5, "A5_IM=" + im5, "A5_SITES=%d" % sites], timeout=60,
                   function=FN + "[EigenSystemSU3.txt, eigenvector part]", where="include/SQuIDS/SU_inc/EigenSystemSU3.txt")]
    res = core.pmap(lambda q: l2.run_query(q, bdir, inc), qs)
    wit = {"su3.scalar.divisors": dict(d=[3], c=[0.7, 0, 0, 0, 0, 0, 0, 0, 0]),          # multiple of the identity: norma = 0, k1/k2 = 0/0
           "su3.a5.nonzero": dict(d=[3], c=[0.3, 0, 0, 0, 0.5, 0, 0, 0, 0.2]),            # diagonal matrix: c[2] = c[6] = 0
           "dispatch": dict(d=[3], order=[0], c=[0.1, 0.2, 0.3, 0.4, 0.5, 0.6, 0.7, 0.8, 0.9]),
           "dispatch4": dict(d=[4], c=[0.1, 0.2, 0.3, 0.4, 0.5, 0.6, 0.7, 0.8, 0.9, 1.0, 1.1, 1.2, 1.3, 1.4, 1.5, 1.6])}
    for q, r in zip(qs, res):
        oid = "C12.L2." + q.name
        for c in r.cmds:
            rep.cmd(re.sub(r'/\S*/\.build/\S*?/', '', c))
        rep.add(oid, q.function, "L2", r.backend or "smt", r.status, r.seconds, q.where, r.detail)
        if r.status == "failed":
            path = core.write_replay("C12", oid, dict(obligation=oid, verifier_output=r.detail[:4000], witness=wit.get(q.name)))
            ok = False
            try:
                ok = replaylib.run_replay("C12", path, "C12")
            except Exception as ex:
                rep.notes.append("native replay failed to run: %s" % ex)
            rep.violation(oid, path, nofail=not ok)


def replay(path):
    ok = replaylib.run_replay("C12", path, "C12")
    print("reproduced" if ok else "not reproduced")
    return 1 if ok else 0
