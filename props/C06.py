"""C06 -- basis rotations are unitary similarity maps (DESIGN 8, C06)."""
import os

import core
import extract
import l2
import replaylib


WRAPS = ((1, "Rotate_U"), (2, "UTransform_em"), (3, "UDaggerTransform_em"), (4, "UTransform_v_scale"))


def run(rep, tier):
    bdir, inc = l2.std_setup(rep, "C06")
    ctext = extract.instantiate(open(os.path.join(core.VERIF, "contracts", "C06_rot_l2.c")).read(), rep)
    rep.dropped.append("Rotate(i,j,th,del): `*this` -> pointer; `SU_vector suv_rot=make_aligned(dim)` -> zero-filled result buffer "
                       "(make_aligned's own contract is Layer 1, C08/C13); kernels R1/R3; sin/cos Ackermannised")
    rep.assume("trig axiom instances: sin^2+cos^2=1 for theta and delta, double-angle identities (definitional for 2*theta, 2*delta)")
    timeout = 60 if tier == "quick" else 300
    qs = []
    for d in (2, 3, 4, 5, 6):
        qs.append(l2.Query("rotate.linear.d%d" % d, ctext, ["D=%d" % d, "II=0", "JJ=1", "LINEAR"], trig=True, timeout=timeout,
                           function="SU_vector::Rotate(i,j,th,del) (linearity lemma, all (i,j) of d=%d)" % d, where="src/SUNalg.cpp"))
        for i in range(d):
            for j in range(i + 1, d):
                qs.append(l2.Query("rotate.d%d.%d%d" % (d, i + 1, j + 1), ctext, ["D=%d" % d, "II=%d" % i, "JJ=%d" % j], trig=True,
                                   timeout=(20 if tier == "quick" else 120), function="SU_vector::Rotate(i,j,th,del) + rotation_switcher.h + RotationSU%d_%d%d.txt" % (d, i + 1, j + 1),
                                   where="src/SUNalg.cpp"))

    ctu = extract.instantiate(open(os.path.join(core.VERIF, "contracts", "C06_ucmu_l2.c")).read(), rep)
    rep.assume("gsl_blas_zgemm(TA,TB,alpha,A,B,beta,C): C := alpha*op(A)*op(B)+beta*C (documented BLAS contract, assumed); thread_local holders as fresh matrices")
    for d in ((2, 3, 4) if tier == "quick" else (2, 3, 4, 5, 6)):
        qs.append(l2.Query("ucmu.d%d" % d, ctu, ["D=%d" % d, "WHAT=1"], timeout=300, function="gsl_matrix_complex_change_basis_UCMU (U^dagger M U; used by Rotate(U), UTransform)", where="src/SUNalg.cpp"))
        qs.append(l2.Query("iucmu.d%d" % d, ctu, ["D=%d" % d, "WHAT=2"], timeout=300, function="gsl_matrix_complex_change_basis_IUCMU (U M U^dagger; used by UDaggerTransform)", where="src/SUNalg.cpp"))

    cto = extract.instantiate(open(os.path.join(core.VERIF, "contracts", "C06_order_l2.c")).read(), rep)
    for d in (2, 3, 4, 5, 6):
        qs.append(l2.Query("order.d%d" % d, cto, ["D=%d" % d], timeout=120, unwind=2 * d * d + 2,
                           function="SU_vector::RotateToB1 / RotateToB0 (sequence of plane rotations)", where="src/SUNalg.cpp"))
    rep.trust("spec lemma: R(i,j,-theta,delta) = R(i,j,theta,delta)^dagger, so the reversed, angle-negated sequence is the inverse map")

    ctm = extract.instantiate(open(os.path.join(core.VERIF, "contracts", "C06_tm_l2.c")).read(), rep)
    rep.dropped.append("Const::GetTransformationMatrix: lambda to_gsl -> function; std::complex expressions `sin(theta)*std::exp(std::complex<double>(0,-delta))`, `-std::conj(cp)` -> "
                       "c_scale/c_expi/c_neg/c_conj (closed statement forms, must fire); unique_ptr return -> raw pointer; zgemm -> logged stub (BLAS contract assumed)")
    for d in ((1, 2, 3, 4, 5, 7) if tier == "quick" else (1, 2, 3, 4, 5, 6, 7)):
        qs.append(l2.Query("mixing_matrix.d%d" % d, ctm, ["D=%d" % d], trig=True, timeout=600, unwind=80,
                           function="Const::GetTransformationMatrix (ordered product of plane rotations)", where="src/const.cpp"))

    cwp = extract.instantiate(open(os.path.join(core.VERIF, "contracts", "C06_wrap_l2.c")).read(), rep)
    for wch, nm in WRAPS:
        qs.append(l2.Query("matrix_entry.%s" % nm, cwp, ["WHICH=%d" % wch], timeout=60, unwind=12, function="SU_vector::%s" % nm.replace("_", "("), where="src/SUNalg.cpp"))
    cwr = extract.instantiate(open(os.path.join(core.VERIF, "contracts", "C06_wr_l2.c")).read(), rep)
    for wch, nm in ((1, "params"), (2, "matrices")):
        qs.append(l2.Query("weighted_rotation.%s" % nm, cwr, ["WHICH=%d" % wch], timeout=60, function="SU_vector::WeightedRotation (%s overload)" % nm, where="src/SUNalg.cpp"))
    rep.trust("spec lemma: (1/4)({Y,{Y,s}} + i[Y,i[Y,s]]) = Y s Y (from C02's contracts of the two commutators); with RotateToB0(p) = U_p . U_p^dagger = UDaggerTransform(U_p) and "
              "RotateToB1(p) = UTransform(U_p) the two WeightedRotation overloads are the same map")

    def gens(q):
        df = l2.defs_of(q)
        if "LINEAR" in df or "II" not in df:
            return None
        d = int(df["D"])
        return [l2.Query("%s.gen%d" % (q.name, ia), ctext, list(q.defines) + ["IA=%d" % ia], trig=True, timeout=timeout,
                         function=q.function, where=q.where) for ia in range(d * d)]

    def witness(q, sub):
        df = l2.defs_of(q)
        if "WHAT" in df and "II" not in df:
            return dict(family="ucmu", d=int(df["D"]), what=int(df["WHAT"]), seed=core.SEED)
        if "II" not in df:            # RotateToB1/B0 ordering, mixing matrix
            return dict(family="mixing", d=min(max(int(df.get("D", 3)), 2), 6), seed=core.SEED)
        w = dict(family="rotation", d=int(df["D"]), i=int(df["II"]), j=int(df["JJ"]), seed=core.SEED)
        if sub is not None:
            w["ia"] = int(l2.defs_of(sub.q)["IA"])
        return w
    l2.run_symbolic(rep, "C06", qs, bdir, inc + [os.path.join(core.REPO, "include", "SQuIDS")], gens=gens, lin=lambda q: "C06.L2.rotate.linear.d%s" % l2.defs_of(q)["D"],
                    witness=witness, replay_prog="algebra")
    const_store(rep)


def const_store(rep):
    """Layer 1: the parameter store (plain CBMC harnesses, complete unwinding of constant-bound comparison loops)"""
    import re, l1
    src = extract.strip_comments(core.repo_read("src/const.cpp"))
    for nm, a, b in (("th", "SQUIDS_MAX_HILBERT_DIM", "SQUIDS_MAX_HILBERT_DIM"), ("dcp", "SQUIDS_MAX_HILBERT_DIM", "SQUIDS_MAX_HILBERT_DIM"), ("de", "SQUIDS_MAX_HILBERT_DIM-1", "1")):
        if not re.search(r'\b%s\s*\(\s*gsl_matrix_alloc\s*\(\s*%s\s*,\s*%s\s*\)\s*,\s*gsl_matrix_free\s*\)' % (nm, re.escape(a), re.escape(b)), src):
            raise core.ExtractionError("Const::Const(): allocation of `%s` is not gsl_matrix_alloc(%s,%s) as the harness of contracts/const_l1.c assumes" % (nm, a, b))
        rep.rule("const.ctor." + nm, 1)
    bdir = core.builddir("C06.store")
    inc = [os.path.join(core.REPO, "include", "SQuIDS"), os.path.join(core.VERIF, "spec")]
    ct = extract.instantiate(open(os.path.join(core.VERIF, "contracts", "const_l1.c")).read(), rep)
    names = ["SetMixingAngle", "GetMixingAngle", "SetPhase", "GetPhase", "SetEnergyDifference", "GetEnergyDifference"]
    jobs = [l1.Job("store." + n, ct, "main", includes=inc, defines=["FN=%d" % k], unwind=40, complete=True, timeout=300, function_label="Const::" + n, where="src/const.cpp")
            for k, n in enumerate(names)]
    for res in core.pmap(lambda j: l1.run_job(j, bdir), jobs):
        for p in l1.record(rep, res, "C06"):
            oid = "C06.%s.%s" % (res.job.name, p.name)
            path = core.write_replay("C06", oid, dict(obligation=p.name, description=p.desc, location=p.loc, verifier="cbmc", witness=dict(family="mixing", d=3, seed=core.SEED)))
            ok = replaylib.run_replay("C06", path, prog="algebra")
            rep.violation(oid, path, nofail=not ok)


def replay(path):
    ok = replaylib.run_replay("C06", path, prog="algebra")
    print("reproduced" if ok else "not reproduced")
    return 1 if ok else 0
