"""Shared job tables of the SU_vector family (C08 C09 C14 C15 C16): Layer-1 DFCC jobs over the templates
contracts/suv_l1.c, proxy_l1.c, guards_l1.c, kernels_l1.c, C13_l1.c.  A clause of a contract may carry property tags
(`C14:` in its comment); an obligation generated from a tagged clause is counted only for the tagged properties, an
untagged one for every property the job serves."""
import os
import re

import core
import extract
import l1
import l2
import replaylib

INC = [os.path.join(core.REPO, "include", "SQuIDS"), os.path.join(core.VERIF, "spec")]
LIFE_REPL = ["su_alloc_aligned", "su_deallocate_mem", "sq_copyn", "sq_filln", "sq_new_double_o", "sq_isqrt"]
PROXY_REPL = ["su_alloc_aligned", "su_deallocate_mem", "proxy_compute", "su_assign_copy", "su_pluseq", "su_minuseq", "su_dtor",
              "su_ctor_sized", "mayStealArg1", "mayStealArg2"]
FAMS = ["Evolution", "FastEvolution", "Addition", "Subtraction", "Negation", "Multiplication", "iCommutator", "ACommutator", "BinaryElementwiseOp"]
WRAP = ["Assign", "Increment", "Decrement"]

LIFE = {  # job -> (enforced function, label, properties, loops)
    "ctor_default": ("su_ctor_default", "SU_vector::SU_vector()", "C08 C15", False),
    "ctor_copy": ("su_ctor_copy", "SU_vector::SU_vector(const SU_vector&)", "C08 C15 C16", False),
    "ctor_move": ("su_ctor_move", "SU_vector::SU_vector(SU_vector&&)", "C08 C15", False),
    "ctor_ext": ("su_ctor_ext", "SU_vector::SU_vector(unsigned,double*)", "C08 C14 C15", False),
    "ctor_sized": ("su_ctor_sized", "SU_vector::SU_vector(unsigned)", "C08 C14 C15 C16", False),
    "ctor_list": ("su_ctor_list", "SU_vector::SU_vector(const std::vector<double>&)", "C01 C14 C15 C16", False),
    "dtor": ("su_dtor", "SU_vector::~SU_vector()", "C08 C15", False),
    "SetBackingStore": ("su_SetBackingStore", "SU_vector::SetBackingStore", "C08 C15", False),
    "assign_copy": ("su_assign_copy", "SU_vector::operator=(const SU_vector&)", "C08 C14 C15 C16", False),
    "assign_move": ("su_assign_move", "SU_vector::operator=(SU_vector&&)", "C08 C14 C15", False),
    "pluseq": ("su_pluseq", "SU_vector::operator+=(const SU_vector&)", "C14 C15", True),
    "minuseq": ("su_minuseq", "SU_vector::operator-=(const SU_vector&)", "C14 C15", True),
    "eq": ("su_eq", "SU_vector::operator==", "C01 C08 C15", True),
    "GetComponents": ("su_GetComponents", "SU_vector::GetComponents", "C01 C15", True),
}
GUARDS = ["op_plus_0", "op_plus_1", "op_plus_2", "op_plus_3", "op_minus_0", "op_minus_1", "f_iCommutator", "f_ACommutator",
          "f_Elementwise_0", "f_Elementwise_1", "f_Elementwise_2", "f_Elementwise_3", "m_Evolve", "op_dot"]


class Fam:
    def __init__(self, rep, pid, sub=""):
        self.rep, self.pid = rep, pid
        self.bdir = core.builddir(pid + sub)
        self.tpl = {}
        self.text = {}
        self.jobs = []       # (Job, template name, props string)

    def template(self, name):
        if name not in self.text:
            raw = open(os.path.join(core.VERIF, "contracts", name)).read()
            # placeholders of the per-overload section (filled in by add_overloads): neutral defaults for the shared instantiation
            raw = raw.replace("@@SIG@@", r'detail::AdditionProxy\s+operator\+\s*\(').replace("@@NTH@@", "0")
            self.tpl[name] = raw.split("\n")
            self.text[name] = extract.instantiate(raw, self.rep)
        return self.text[name]

    def add_life(self, names=None):
        ct = self.template("suv_l1.c")
        for n, (fn, label, props, loops) in LIFE.items():
            if names and n not in names:
                continue
            if self.pid not in props.split():
                continue
            if n == "ctor_list":
                for ln in (getattr(self, "list_ns", None) or range(0, 65)):
                    self.jobs.append((l1.Job("ctor_list.n%d" % ln, ct, "h_ctor_list", enforce=fn, replace=LIFE_REPL, includes=INC, timeout=300, object_bits=10,
                                             defines=["LIST_N=%d" % ln], slice_formula=True, sat_solver="cadical", function_label=label,
                                             where="src/SUNalg.cpp:137"), "suv_l1.c", props))
                continue
            self.jobs.append((l1.Job(n, ct, "h_" + n, enforce=fn, replace=LIFE_REPL, loops=loops, includes=INC, timeout=600, object_bits=10,
                                     slice_formula=True, sat_solver="cadical", function_label=label, where="src/SUNalg.cpp / include/SQuIDS/SUNalg.h"),
                              "suv_l1.c", props))

    def add_proxy(self, fams=None):
        ct = self.template("proxy_l1.c")
        for f in range(9):
            if fams and FAMS[f] not in fams:
                continue
            for w in range(3):
                self.jobs.append((l1.Job("assignProxy.%s.%s" % (FAMS[f], WRAP[w]), ct, "h_assignProxy", enforce="assignProxy", replace=PROXY_REPL,
                                         includes=INC, defines=["FIX_FAM=%d" % f, "FIX_WMODE=%d" % w], timeout=900, object_bits=10,
                                         slice_formula=True, sat_solver="cadical",
                                         function_label="SU_vector::assignProxy<%sWrapper,%sProxy[+guarantees]>" % (WRAP[w], FAMS[f]),
                                         where="include/SQuIDS/SUNalg.h:153"), "proxy_l1.c", "C08 C09 C14 C15 C16"))
            self.jobs.append((l1.Job("ctor_proxy.%s" % FAMS[f], ct, "h_ctor_proxy", enforce="su_ctor_proxy", replace=PROXY_REPL, includes=INC,
                                     defines=["FIX_FAM=%d" % f], timeout=900, object_bits=10, slice_formula=True, sat_solver="cadical",
                                     function_label="SU_vector::SU_vector(%sProxy&&)" % FAMS[f], where="include/SQuIDS/SUNalg.h:306"),
                              "proxy_l1.c", "C08 C09 C15 C16"))

    def add_guards(self):
        ct = self.template("guards_l1.c")
        for g in GUARDS:
            self.jobs.append((l1.Job("guard." + g, ct, "h_" + g, enforce=g, replace=["sq_SUTrace"] if g == "op_dot" else [], includes=INC, timeout=300,
                                     function_label="entry point " + g, where="include/SQuIDS/SUNalg.h"), "guards_l1.c", "C01 C08 C09 C14 C15"))
        self.add_overloads()

    def add_overloads(self):
        """one generic job per binary operator+ / operator- overload that SUNalg.h defines (also ones added later): contract derived from the signature"""
        hdr = extract.strip_comments(core.repo_read("include/SQuIDS/SUNalg.h"))
        raw = open(os.path.join(core.VERIF, "contracts", "guards_l1.c")).read()
        n_any = len(re.findall(r'\boperator\s*[-+]\s*\(\s*(?:const\s+)?SU_vector\s*&', hdr))
        found = 0
        for op, fam, proxy, comm in (("\\+", "F_Addition", "AdditionProxy", 1), ("-", "F_Subtraction", "SubtractionProxy", 0)):
            sig = r'detail::%s\s+operator\s*%s\s*\(\s*(?:const\s+SU_vector&|SU_vector&&)\s*other\s*\)' % (proxy, op)
            ms = list(re.finditer(sig + r'\s*(const\s*&|&&|const|&)?\s*\{', hdr))
            for k, m in enumerate(ms):
                found += 1
                other_rv = 1 if re.search(r'\(\s*SU_vector&&', m.group(0)) else 0
                this_rv = 1 if (m.group(1) or "").strip() == "&&" else 0
                txt = raw.replace("@@SIG@@", sig).replace("@@NTH@@", str(k))
                if txt not in self.text:
                    pass
                ct = extract.instantiate(txt, self.rep)
                name = "overload.%s.%d" % ("plus" if comm else "minus", k)
                self.tpl["guards_l1.c#" + name] = txt.split("\n")
                self.jobs.append((l1.Job(name, ct, "h_op_generic", enforce="op_generic", includes=INC, timeout=300,
                                         defines=["GEN_OVERLOAD", "GEN_FAMILY=" + fam, "GEN_COMMUTATIVE=%d" % comm, "THIS_RV=%d" % this_rv, "OTHER_RV=%d" % other_rv],
                                         function_label="SU_vector::operator%s overload #%d (%s other, %s this)" % ("+" if comm else "-", k, "rvalue" if other_rv else "lvalue",
                                                                                                                  "rvalue" if this_rv else "lvalue"),
                                         where="include/SQuIDS/SUNalg.h"), "guards_l1.c#" + name, "C01 C08 C09 C14 C15"))
        self.rep.rule("overloads.binary_plus_minus", found)
        if found != n_any:
            raise core.ExtractionError("SUNalg.h defines %d binary operator+/- overloads taking an SU_vector but only %d have the expected shape" % (n_any, found))

    def add_kernels(self, fams=None):
        fired = {}
        dst, problems = l2.prep_su_inc_l1(self.bdir, fired)
        for k, v in fired.items():
            self.rep.rule(k, v)
        for fn in problems:
            self.rep.add("%s.kernel.%s.touches_target_only_through_wrapper" % (self.pid, fn), fn, "L1", "extractor", "failed", 0, fn,
                         "the kernel refers to its target outside a `+=` store")
        ct = self.template("kernels_l1.c")
        for f in range(9):
            if fams and FAMS[f] not in fams:
                continue
            for d in range(2, 7):
                self.jobs.append((l1.Job("kernel.%s.d%d" % (FAMS[f], d), ct, "main", includes=[self.bdir] + INC, defines=["D=%d" % d, "FAM=%d" % f],
                                         slice_formula=True, timeout=300, function_label="detail::%sProxy::compute (d=%d)" % (FAMS[f], d),
                                         where="include/SQuIDS/detail/ProxyImpl.h"), "kernels_l1.c", "C09 C15"))

    def add_factories(self, public_make_aligned=False):
        ct = self.template("C13_l1.c")
        self.jobs.append((l1.Job("make_aligned", ct, "h_su_make_aligned", enforce="su_make_aligned",
                                 replace=["su_ctor_default", "su_alloc_aligned", "sq_filln", "su_dtor"], includes=INC, timeout=600, object_bits=10,
                                 function_label="SU_vector::make_aligned", where="src/SUNalg.cpp:184"), "C13_l1.c", "C14 C15 C16"))

    # ----------------------------------------------------------------------------------------------
    def tags_at(self, tname, loc):
        m = re.match(r'template:(\d+)', loc or "")
        if not m:
            return set()
        lines = self.tpl[tname]
        i = int(m.group(1)) - 1
        if i >= len(lines):
            return set()
        txt = lines[i]
        j = i
        while j > 0 and not re.match(r'\s*(__CPROVER_|[A-Z_]+\()', lines[j]) and i - j < 4:
            j -= 1
            txt = lines[j] + txt
        return set(re.findall(r'\bC\d\d\b', txt))

    def run(self, scenario=None):
        rep, pid = self.rep, self.pid
        results = core.pmap(lambda t: l1.run_job(t[0], self.bdir), self.jobs)
        for (job, tname, props), res in zip(self.jobs, results):
            # property-tag filter: drop obligations of clauses tagged for other properties only
            keep = []
            for p in res.props:
                tags = self.tags_at(tname, p.loc)
                if tags and pid not in tags and not (tags & getattr(self, "also_tags", set())):
                    continue
                keep.append(p)
            res.props = keep
            failed = l1.record(rep, res, pid)
            for p in failed:
                oid = "%s.%s.%s" % (pid, job.name, p.name)
                sc = scenario(job, p) if scenario else None
                data = dict(obligation=p.name, description=p.desc, location=p.loc, verifier="cbmc/dfcc",
                            cex=l1.trace_inputs(p.trace, r'^(fam|gflags|wmode|alias|a|b|t|p|d|ii|dim|al|v|r|n|comp_n)$'))
                ok = False
                path = core.write_replay(pid, oid, data)
                if sc:
                    data["witness"] = dict(scenario=sc, seed=core.SEED)
                    path = core.write_replay(pid, oid, data)
                    ok = replaylib.run_replay(pid, path, prog="lifecycle")
                rep.violation(oid, path, nofail=not ok)


def std_texts(rep):
    rep.dropped.append("methods -> free functions with explicit `self`; references -> pointers; constructor initialiser lists -> assignments in the order written; "
                       "exceptions -> ghost sq_thrown with explicit propagation after each call that may throw (destructors of locals emitted where locals own storage); "
                       "templates instantiated by ghost constants (operation family, guarantee flags, wrapper) whose trait values are extracted from ProxyFwd.h; "
                       "return of *this dropped")
    rep.assume("allocation primitives by ABSTRACT contracts (spec/su_l1.h): alloc_aligned yields a fresh block of `size` doubles and an offset <=3 recorded for "
               "that block, deallocate_mem requires a live library block handed back with its recorded offset; their bodies are verified against the concrete layout separately (C15)")
    rep.assume("std::copy / std::fill: assumed contracts (libstdc++); (unsigned)sqrt(n) is the integer square root for n<=100")
    rep.assume("history quantifier by induction: every operation is proved from ARBITRARY operands satisfying the representation invariant SU_VALID, in the alias patterns "
               "{disjoint, same object, shared external buffer}")
    rep.trust("CBMC 6.11 DFCC instrumentation, SAT back ends (minisat / cadical)")
