"""C14 -- see DESIGN.md section 8 (C14) and props/suvfam.py"""
import core
import replaylib
import suvfam_scen
from props import suvfam


def run(rep, tier):
    fam = suvfam.Fam(rep, "C14")
    suvfam.std_texts(rep)
    fam.add_life()
    fam.add_proxy()
    suvfam_scen.extra(fam, "C14")
    fam.run(scenario=suvfam_scen.scenario)
    rotate_by_matrix(rep)
    from props import C13
    C13.run_factories(rep, "C14")       # "asking a factory for an out-of-range index": the rejection clauses of the five factories' contracts


def rotate_by_matrix(rep):
    """Rotate(U): `exception iff U is not dim x dim, nothing evaluated before it` (call-sequence contract shared with C06)"""
    import os, re, extract, l2
    bdir = core.builddir("C14.rotU")
    ct = extract.instantiate(open(os.path.join(core.VERIF, "contracts", "C06_wrap_l2.c")).read(), rep)
    q = l2.Query("guard.Rotate_U", ct, ["WHICH=1"], timeout=60, unwind=12, function="SU_vector::Rotate(const gsl_matrix_complex*)", where="src/SUNalg.cpp")
    r = l2.run_query(q, bdir, [bdir, os.path.join(core.VERIF, "spec")])
    oid = "C14.L2.guard.Rotate_U"
    for c in r.cmds:
        rep.cmd(re.sub(r'/\S*/\.build/\S*?/', '', c))
    rep.add(oid, q.function, "L2", r.backend or "smt", r.status, r.seconds, q.where, r.detail)
    if r.status == "failed":
        path = core.write_replay("C14", oid, dict(obligation=oid, verifier_output=r.detail[:3000], witness=dict(scenario="rotate_matrix_mismatch", seed=core.SEED)))
        ok = False
        try:
            ok = replaylib.run_replay("C14", path, prog="lifecycle")
        except Exception as ex:
            rep.notes.append("native replay failed to run: %s" % ex)
        rep.violation(oid, path, nofail=not ok)


def replay(path):
    ok = replaylib.run_replay("C14", path, prog="lifecycle")
    print("reproduced" if ok else "not reproduced")
    return 1 if ok else 0
