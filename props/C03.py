"""C03 -- time evolution by a diagonal operator is exact conjugation (DESIGN 8, C03)."""
import os

import core
import extract
import l2
import replaylib

WHAT = {1: ("direct_is_conjugation", "detail::EvolutionProxy::compute + EvolutionSU%d.txt"),
        2: ("twostep_equals_direct", "SU_vector::PrepareEvolve(double*,double) + PreSinCosEvolSU%d.txt; detail::FastEvolutionProxy::compute + SinCosEvolSU%d.txt"),
        3: ("t0_identity", "EvolutionProxy / PrepareEvolve+FastEvolutionProxy at t=0 (d=%d)"),
        4: ("linear_in_vector", "EvolutionProxy::compute / FastEvolutionProxy::compute (linearity lemma, d=%d)")}


def run(rep, tier):
    bdir, inc = l2.std_setup(rep, "C03")
    ctext = extract.instantiate(open(os.path.join(core.VERIF, "contracts", "C03_l2.c")).read(), rep)
    rep.dropped.append("proxy compute(): template parameters and `this` dropped, operands by value; `auto&` aliases -> struct copies; "
                       "sin/cos -> uninterpreted functions, Ackermannised per argument class; kernels R1/R3")
    rep.assume("trig axiom instances: sin^2+cos^2=1 per argument, parity and congruence pairwise (conditional), sin0=0/cos0=1 for the t=0 obligations")
    rep.assume("group law (t1 then t2 = t1+t2) and scalar-product preservation follow from the conjugation postcondition by angle addition / "
               "unitarity of a phase (spec lemmas, not checked on code)")
    rep.assume("H is diagonal in the current basis (the property's own precondition); the kernels ignore off-diagonal components of H")
    timeout = 60 if tier == "quick" else 300
    qs = []
    for d in (2, 3, 4, 5, 6):
        for w, (nm, fn) in WHAT.items():
            qs.append(l2.Query("%s.d%d" % (nm, d), ctext, ["D=%d" % d, "WHAT=%d" % w], trig=True, timeout=timeout, zero_axiom=(w == 3),
                               function=fn.replace("%d", str(d)), where="include/SQuIDS/detail/ProxyImpl.h, include/SQuIDS/SUNalg.h"))
    def gens(q):
        df = l2.defs_of(q)
        if int(df["WHAT"]) not in (1, 2):
            return None
        d = int(df["D"])
        return [l2.Query("%s.gen%d" % (q.name, ia), ctext, list(q.defines) + ["IA=%d" % ia], trig=True, timeout=timeout,
                         function=q.function, where=q.where) for ia in range(d * d)]

    def witness(q, sub):
        df = l2.defs_of(q)
        w = dict(family="evolution", what=int(df["WHAT"]), d=int(df["D"]), seed=core.SEED)
        if sub is not None:
            w["ia"] = int(l2.defs_of(sub.q)["IA"])
        return w
    # linearity lemmas first in the list so that they are recorded before the compositions that use them
    qs.sort(key=lambda q: 0 if "linear" in q.name else 1)
    l2.run_symbolic(rep, "C03", qs, bdir, inc, gens=gens, lin=lambda q: "C03.L2.linear_in_vector.d%s" % l2.defs_of(q)["D"],
                    witness=witness, replay_prog="algebra")
    # Layer 1 (shared with C09): the statement `T = op(A,B)` / `T += ...` / construction is the value contract above only if the kernel writes every slot of the
    # target exactly once through the statement's wrapper and is never evaluated in place on an aliased operand: kernel write-once jobs and the assignProxy /
    # proxy-constructor policy jobs of these operation families
    from props import suvfam
    import suvfam_scen
    fam = suvfam.Fam(rep, "C03", sub=".l1")
    fam.also_tags = {"C09"}        # the policy clauses tagged for C09 are exactly what makes the fused statement equal to the value contract above
    suvfam.std_texts(rep)
    fam.add_kernels(fams=["Evolution", "FastEvolution"])
    fam.add_proxy(fams=["Evolution", "FastEvolution"])
    fam.run(scenario=suvfam_scen.scenario)


def replay(path):
    ok = replaylib.run_replay("C03", path, prog="algebra")
    print("reproduced" if ok else "not reproduced")
    return 1 if ok else 0
