"""C15 -- no operation history leaks, double-frees or touches memory it does not own (DESIGN 8, C15): the union of the Layer-1 safety
obligations (bounds, pointer validity incl. use after release, double release through the allocator contract, signed overflow and
conversion checks, SQUIDS_COMPILER_ASSUME axioms, frames) of every function under contract in the SU_vector family, the ledger clauses
(sq_live) of every contract, the concrete layout of alloc_aligned/deallocate_mem, and the block cache."""
import os

import core
import extract
import l1
import replaylib
import suvfam_scen
from props import suvfam
from props import C19 as c19
from props import C13 as c13


def run(rep, tier):
    fam = suvfam.Fam(rep, "C15")
    suvfam.std_texts(rep)
    c19.texts(rep)
    rep.assume("histories: every operation preserves the representation invariant and the ledger from arbitrary valid operands (induction); exception paths are ordinary paths (ghost sq_thrown)")
    rep.assume("NOT under contract (unverified surroundings): GSL internals, iostream operator<<, std::sort/lower_bound, the solver object SQuIDS (C04/C10), MatrixExp.cpp (C07)")
    fam.add_life()
    fam.add_proxy()
    fam.add_guards()
    fam.add_kernels()
    fam.add_factories()
    # factories of C13, the cache and the concrete allocator
    ct13 = fam.template("C13_l1.c")
    for f in c13.FACT:
        fam.jobs.append((l1.Job("factory." + f, ct13, "h_" + f, enforce=f, replace=["su_make_aligned", "ComponentsFromMatrices", "su_dtor"], loops=(f != "Generator"),
                                includes=suvfam.INC, timeout=600, object_bits=10, function_label="SU_vector::" + f, where="src/SUNalg.cpp"), "C13_l1.c", "C13 C15"))
    ctc = fam.template("cache_l1.c")
    for j in c19.jobs_for(ctc, caps=(1, 2, 3, 4)):
        fam.jobs.append((j, "cache_l1.c", "C19 C15"))
    cta = fam.template("alloc_l1.c")
    fam.jobs.append((l1.Job("alloc_aligned.deallocate_mem.concrete", cta, "main", includes=suvfam.INC, object_bits=10, timeout=300,
                            function_label="SU_vector::alloc_aligned / deallocate_mem (concrete layout)", where="include/SQuIDS/SUNalg.h:215-254"), "alloc_l1.c", "C15"))
    fam.run(scenario=suvfam_scen.scenario)


def replay(path):
    ok = replaylib.run_replay("C15", path, prog="lifecycle")
    print("reproduced" if ok else "not reproduced")
    return 1 if ok else 0
