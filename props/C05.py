"""C05 -- expectation values are Schroedinger-picture traces; x-interpolation is linear (DESIGN 8, C05)."""
import os

import core
import extract
import l1
import l2
import replaylib

INC = [os.path.join(core.REPO, "include", "SQuIDS"), os.path.join(core.VERIF, "spec")]
JOBS = {"GetExpectationValueD": "SQuIDS::GetExpectationValueD(op,irho,x,buffer)", "GetExpectationValue": "SQuIDS::GetExpectationValue(op,irho,ix)",
        "GetIntermediateState": "SQuIDS::GetIntermediateState",
        "GetExpectationValueD_avg": "SQuIDS::GetExpectationValueD(op,irho,x,buffer,scale,avr)", "GetExpectationValue_avg": "SQuIDS::GetExpectationValue(op,irho,ix,scale,avr)"}


def run(rep, tier):
    bdir = core.builddir("C05")
    nxg = 4 if tier == "quick" else 6
    ct = extract.instantiate(open(os.path.join(core.VERIF, "contracts", "squids_l1.c")).read(), rep)
    rep.dropped.append("class SQuIDS -> struct + free functions; std::vector<double> x -> (pointer,nx); iterator arithmetic of lower_bound/distance -> indices; "
                       "overloaded SU_vector expressions -> calls by the closed statement-form table (DESIGN App. E); H0 -> ghost-logging hook")
    rep.assume("std::lower_bound on a sorted range returns the first index whose value is not less than x (libstdc++); grid strictly increasing, no NaN")
    rep.assume("the SU_vector operations are represented by their contracts: scalar*vector fused assignment (C09/C01), Evolve(H0,tau) = conjugation by exp(i H0 tau) (C03), scalar product = Tr(AB) (C02); "
               "Tr(rho e^{iH0 tau} O e^{-iH0 tau}) = Tr(e^{-iH0 tau} rho e^{iH0 tau} O) by cyclicity of the trace (spec lemma)")
    rep.assume("the grid length is BOUNDED (nx<=%d) because the bracketing index is found by scanning the ghost log; the thread_local-buffer overloads (which only supply the buffer) "
               "are not under contract here; what PrepareEvolve(buffer,tau,scale,avr) computes is C11" % nxg)
    rep.trust("CBMC 6.11, fp2real + z3/cvc5 for the weight formula")
    D = ["NXB=%d" % nxg, "NRB=2", "NSB=1", "NXG=%d" % nxg]
    jobs = [l1.Job(n, ct, "h_" + n, includes=INC, defines=D, unwind=nxg + 2, complete=False, bound_text="nx<=%d" % nxg, timeout=600, slice_formula=True,
                   sat_solver="cadical", function_label=lab, where="src/SQuIDS.cpp") for n, lab in JOBS.items()]
    rep.bounded.append(dict(function="GetExpectationValueD / GetIntermediateState / GetExpectationValue", bound="nx<=%d" % nxg, what="bracketing, range error, hook arguments, evaluation order"))
    # the same harnesses, loop free, for longer grids: the quantified grid preconditions are instantiated at the indices the call consults
    # (contracts/squids_l1.c sq_grid_instances); no loop is unwound (unwind 2 + unwinding assertions prove there is none).  NXU sizes the array objects only,
    # but CBMC's cost grows linearly with it (35 s at 16, 141 s at 64, time-out at 1024), so these jobs stay a BOUNDED stand-in with a larger bound.
    NXU = 32          # both tiers: 64 costs 141 s per job on an idle machine and was not measured under the load of a full thorough run
    DU = ["NXB=%d" % NXU, "NRB=2", "NSB=1", "NXG=%d" % NXU, "NXU=%d" % NXU]
    jobs += [l1.Job(n + "_anynx", ct, "h_" + n, includes=INC, defines=DU, unwind=2, complete=False, bound_text="nx<=%d (array object size; no loop unwound)" % NXU, timeout=900, slice_formula=True,
                    sat_solver="cadical", function_label=lab + " [loop-free harness]", where="src/SQuIDS.cpp") for n, lab in JOBS.items()]
    rep.bounded.append(dict(function="GetExpectationValueD / GetIntermediateState / GetExpectationValue [loop-free harness]", bound="nx<=%d (object size)" % NXU, what="as above, longer grids"))
    rep.assume("loop-free-harness jobs: `grid strictly increasing and finite` and `state[e].rho is node e's block` are instantiated at the indices 0, 1, k-1, k, nx-1 "
               "that a call bracketing with lower_bound can consult, instead of being established for all nodes (array objects sized for nx<=%d)" % NXU)
    for res in core.pmap(lambda j: l1.run_job(j, bdir), jobs):
        for p in l1.record(rep, res, "C05"):
            oid = "C05.%s.%s" % (res.job.name, p.name)
            data = dict(obligation=p.name, description=p.desc, location=p.loc, verifier="cbmc", cex=l1.trace_inputs(p.trace, r'^(xi|S|nrh)$'),
                        witness=dict(scenario=res.job.name, seed=core.SEED))
            path = core.write_replay("C05", oid, data)
            ok = replaylib.run_replay("C05", path, prog="C05")
            rep.violation(oid, path, nofail=not ok)
    qs = [l2.Query("weights.%s" % n, ct, D + ["L2WEIGHTS=%d" % k], timeout=120, function=JOBS[n], where="src/SQuIDS.cpp") for k, n in ((1, "GetExpectationValueD"), (2, "GetIntermediateState"))]
    l2.run_symbolic(rep, "C05", qs, bdir, INC)


LEVEL = "other"
EXPLANATION = ("contract checking of the real GetExpectationValue/GetExpectationValueD/GetIntermediateState bodies with a ghost call log: range error iff x outside the nodes, bracketing nodes, hook arguments (H0 at x itself), evolution time t-t_ini, evaluation order -- discharged by CBMC for every grid with nx up to the bound (bounded, not counted as proved); the interpolation-weight formula is a real-arithmetic VC (proved)")


def replay(path):
    ok = replaylib.run_replay("C05", path, prog="C05")
    print("reproduced" if ok else "not reproduced")
    return 1 if ok else 0
