"""C13 -- factory operators are exactly the documented projectors, identity and generators (DESIGN 8, C13)."""
import os

import core
import extract
import l1
import l2
import replaylib

INC = [os.path.join(core.REPO, "include", "SQuIDS"), os.path.join(core.VERIF, "spec")]
FACT = ["Projector", "Identity", "PosProjector", "NegProjector", "Generator"]


def run_factories(rep, pid, bdir=None, ctext=None, all_jobs=False):
    """the five factories (and, for C13 itself, make_aligned / destructor / default constructor) under their DFCC contracts, recorded for property `pid`"""
    if bdir is None:
        bdir = core.builddir(pid + ".factories")
    if ctext is None:
        ctext = extract.instantiate(open(os.path.join(core.VERIF, "contracts", "C13_l1.c")).read(), rep)
    jobs = []
    for f in FACT:
        jobs.append(l1.Job(f, ctext, "h_" + f, enforce=f, replace=["su_make_aligned", "ComponentsFromMatrices", "su_dtor"], loops=(f != "Generator"),
                           includes=INC, timeout=600, where="src/SUNalg.cpp " + f, function_label="SU_vector::" + f))
    if all_jobs:
        jobs.append(l1.Job("make_aligned", ctext, "h_su_make_aligned", enforce="su_make_aligned", replace=["su_ctor_default", "su_alloc_aligned", "sq_filln", "su_dtor"],
                           includes=INC, timeout=600, where="src/SUNalg.cpp make_aligned", function_label="SU_vector::make_aligned"))
        jobs.append(l1.Job("dtor", ctext, "h_su_dtor", enforce="su_dtor", replace=["su_deallocate_mem"],
                           includes=INC, timeout=300, where="include/SQuIDS/SUNalg.h ~SU_vector", function_label="SU_vector::~SU_vector()"))
        jobs.append(l1.Job("ctor_default", ctext, "h_su_ctor_default", enforce="su_ctor_default", includes=INC, timeout=300,
                           where="src/SUNalg.cpp SU_vector()", function_label="SU_vector::SU_vector()"))
    results = core.pmap(lambda j: l1.run_job(j, bdir), jobs)
    for r in results:
        failed = l1.record(rep, r, pid)
        for p in failed:
            oid = "%s.%s.%s" % (pid, r.job.name, p.name)
            ins = l1.trace_inputs(p.trace, r'^(d|ii|dim|zero_fill|GI|GJ|gk)$')
            data = dict(obligation=p.name, description=p.desc, location=p.loc, verifier="cbmc/dfcc", cex=ins,
                        witness=dict(family="factory", d=_num(ins.get("d", ins.get("dim", 3))), seed=core.SEED))
            path = core.write_replay(pid, oid, data)
            ok = replaylib.run_replay(pid, path, prog="algebra") if r.job.name in FACT else False
            rep.violation(oid, path, nofail=not ok)


def run(rep, tier):
    bdir, inc2 = l2.std_setup(rep, "C13")
    ctext = extract.instantiate(open(os.path.join(core.VERIF, "contracts", "C13_l1.c")).read(), rep)
    rep.dropped.append("static factories -> free functions returning through *ret (return of a local = transfer of the object, copy elision); "
                       "`SU_vector v=make_aligned(d)` -> call of make_aligned's contract + exception propagation; sq_array_2D{..} -> C compound literal; "
                       "exceptions -> ghost sq_thrown with explicit propagation after each call that may throw")
    rep.assume("std::fill: assumed contract (libstdc++); alloc_aligned/deallocate_mem: abstract contracts of spec/su_l1.h (hidden alignment offset abstracted into a ghost table; their bodies are verified against the concrete layout in C08/C15)")
    rep.assume("the vector that ComponentsFromMatrices produces from the observed 0/1 matrix is Phi(matrix): Layer-2 obligations frommatrix.cfm (same kernels)")
    rep.trust("CBMC 6.11 DFCC instrumentation and SAT back end")
    run_factories(rep, "C13", bdir, ctext, all_jobs=True)
    # Layer 2: value contract of ComponentsFromMatrices
    c01 = extract.instantiate(open(os.path.join(core.VERIF, "contracts", "C01_l2.c")).read(), rep)
    qs = [l2.Query("frommatrix.cfm.d%d" % d, c01, ["D=%d" % d, "WHAT=3"], timeout=120, function="ComponentsFromMatrices + MatrixToSU%d.txt" % d,
                   where="src/SUNalg.cpp") for d in (2, 3, 4, 5, 6)]
    l2.run_symbolic(rep, "C13", qs, bdir, inc2, witness=lambda q, s: dict(family="factory", d=int(l2.defs_of(q)["D"]), seed=core.SEED),
                    replay_prog="algebra")


def _num(x):
    try:
        return max(2, min(6, int(str(x).rstrip("u"))))
    except Exception:
        return 3


def replay(path):
    ok = replaylib.run_replay("C13", path, prog="algebra")
    print("reproduced" if ok else "not reproduced")
    return 1 if ok else 0
