"""C18 -- independent use from several threads is race free (DESIGN 8, C18).  No interleaving is explored.  What is decided is the
premise of the standard non-interference theorem: every function writes only objects reachable from its own arguments and
thread-local objects.  (i) storage-class inventory + one frame job per function that owns static-storage scratch objects;
(ii) the assigns-clause (frame) obligations of the entry points under DFCC contract; (iii) the thread-exit clause: the end-of-life of
a thread's block cache must leave no cached block (fails on the unchanged tree: recorded known finding)."""
import os

import core
import extract
import l1
import replaylib
import statics
from props import suvfam

LEVEL = "other"
EXPLANATION = ("frame discipline: every function under contract is proved (CBMC DFCC assigns obligations) to write only objects reachable from its arguments and "
               "thread-local objects; every object with static storage duration in src/*.cpp is classified from its declaration and its owning function is proved to "
               "write only the thread-local ones.  With the (trusted) non-interference theorem, threads on disjoint vectors, threads handing vectors over under user "
               "synchronisation, and const queries on a shared solver cannot race and obtain the sequential results.  No schedule is explored.")
INC = [os.path.join(core.REPO, "include", "SQuIDS"), os.path.join(core.VERIF, "spec")]
DTOR = r'''
/* thread-exit clause of C18: when a thread ends, its thread-local caches are destroyed; the destructor of detail::cache must give
 * back every cached block (here: the extracted destructor body, or the implicit one -- which does nothing -- if the class declares none) */
int sq_live;
struct cache_model { int n_cached; };
void cache_dtor(struct cache_model* self){
%s
}
int main(void){ struct cache_model c; c.n_cached=nondet_int(); __CPROVER_assume(c.n_cached>=0 && c.n_cached<=32); sq_live=c.n_cached;
  cache_dtor(&c);
  __CPROVER_assert(sq_live==0, "C18: storage cached by a thread is given back when the thread ends (cache end-of-life releases every cached block)");
  __CPROVER_assert(0,"REACH end of harness"); return 0; }
'''


def mutable_members(rep):
    """const queries are concurrent-safe only if they write no object state: a `mutable` data member is state a const method may write.  Supporting static fact,
    one obligation per `mutable` declaration in the library's headers and sources: accepted only for synchronisation primitives (std::mutex, std::atomic...)."""
    import os, re
    n = 0
    for root in ("include/SQuIDS", "include/SQuIDS/detail", "src"):
        d = os.path.join(core.REPO, root)
        for f in sorted(os.listdir(d)):
            if not f.endswith((".h", ".cpp", ".tcc")):
                continue
            txt = extract.strip_comments(open(os.path.join(d, f)).read())
            for m in re.finditer(r'\bmutable\b([^;{]*);', txt):
                if re.search(r'\]\s*\([^)]*\)\s*$', txt[max(0, m.start() - 80):m.start()]):
                    continue          # `[..](..) mutable` of a lambda
                line = txt.count("\n", 0, m.start()) + 1
                decl = " ".join(m.group(0).split())
                ok = bool(re.search(r'std::(mutex|recursive_mutex|shared_mutex|atomic\b|atomic_flag|once_flag)', decl))
                n += 1
                oid = "C18.mutable_member.%s.%d" % (f, line)
                rep.add(oid, decl[:120], "L1", "static-scan", "discharged" if ok else "failed", 0.0, "%s/%s:%d" % (root, f, line),
                        "" if ok else "object state writable by const member functions (shared by every thread that queries the object): `%s`" % decl[:200])
                if not ok:
                    path = core.write_replay("C18", oid, dict(obligation=oid, declaration=decl, verifier_output="static scan of mutable data members", reproduced=None))
                    rep.violation(oid, path, nofail=True)
    rep.rule("mutable_members.found", n)
    rep.assume("const-correctness is relied on for the 'const queries on a shared object' clause: %d mutable data member(s) found (each is an obligation); const_cast of `this` is not searched for" % n)


def run(rep, tier):
    mutable_members(rep)
    bdir = core.builddir("C18")
    inv = statics.inventory()
    ctext, fjobs = statics.c_text(inv)
    rep.rule("statics.inventory.objects", len(inv))
    rep.extra["static_storage_inventory"] = [dict(file=o["file"], function=o["function"], object=o["var"], line=o["line"], thread_local=o["thread_local"]) for o in inv]
    rep.dropped.append("frame jobs: the bodies of the functions owning scratch objects are reduced to the writes to those objects (must-fire: each object is reset/assigned/passed as "
                       "output in the real body); the classification TL_/SH_ comes from the declaration in /repo")
    rep.assume("TRUSTED: the non-interference theorem for sequential code with disjoint frames; GSL/BLAS re-entrancy; user hooks (H0 ...) are const")
    rep.assume("matrix_exponential's estimator RNG is per-thread history (the property itself excludes bit-identity there)")
    rep.trust("CBMC 6.11 DFCC assigns-clause instrumentation")
    jobs = []
    pre = '#include "sq_prelude.h"\n'
    for fname, f, fn, objs in fjobs:
        jobs.append(l1.Job("frame." + fn.replace("::", "_") + "." + fname, pre + ctext, "h_" + fname, enforce=fname, includes=INC, timeout=120,
                           function_label="%s (static-storage scratch objects: %s)" % (fn, ", ".join(o["var"] for o in objs)), where=f))
    # frames of the proxy-building entry points and the scalar product (DFCC assigns obligations)
    fam = suvfam.Fam(rep, "C18x")
    fam.add_guards()
    for (j, tname, props) in fam.jobs:
        jobs.append(j)
    # thread-exit clause
    try:
        cut = extract.cut_function("include/SQuIDS/detail/Cache.h", r'~cache\s*\(')
        body = "/* extracted destructor: not translatable by the current rules */\n  __CPROVER_assert(0, \"destructor body needs a translation rule\");"
        rep.undecide("cache now has a destructor: add translation rules for it (C18 thread-exit clause)")
    except core.ExtractionError:
        body = "  /* class cache declares no destructor: the implicit one releases nothing */"
    jobs.append(l1.Job("cache.dtor", pre + (DTOR % body), "main", includes=INC, timeout=120, function_label="detail::cache<T,N>::~cache (implicit)",
                       where="include/SQuIDS/detail/Cache.h"))
    for res in core.pmap(lambda j: l1.run_job(j, bdir), jobs):
        for p in l1.record(rep, res, "C18"):
            oid = "C18.%s.%s" % (res.job.name, p.name)
            data = dict(obligation=p.name, description=p.desc, location=p.loc, verifier="cbmc/dfcc", function=res.job.function_label,
                        witness=dict(scenario="cache_dtor" if res.job.name == "cache.dtor" else "frame", seed=core.SEED))
            path = core.write_replay("C18", oid, data)
            ok = replaylib.run_replay("C18", path, prog="C18") if res.job.name == "cache.dtor" else False
            rep.violation(oid, path, nofail=not ok)


def replay(path):
    ok = replaylib.run_replay("C18", path, prog="C18")
    print("reproduced" if ok else "not reproduced")
    return 1 if ok else 0
