"""C16 -- see DESIGN.md section 8 (C16) and props/suvfam.py"""
import core
import replaylib
import suvfam_scen
from props import suvfam


def run(rep, tier):
    fam = suvfam.Fam(rep, "C16")
    suvfam.std_texts(rep)
    fam.add_life()
    fam.add_proxy()
    suvfam_scen.extra(fam, "C16")
    fam.run(scenario=suvfam_scen.scenario)


def replay(path):
    ok = replaylib.run_replay("C16", path, prog="lifecycle")
    print("reproduced" if ok else "not reproduced")
    return 1 if ok else 0
