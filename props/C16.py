"""C16 -- see DESIGN.md section 8 (C16) and props/suvfam.py"""
import core
import replaylib
import suvfam_scen
from props import suvfam


def run(rep, tier):
    fam = suvfam.Fam(rep, "C16")
    suvfam.std_texts(rep)
    fam.add_life()
    fam.add_proxy()
    suvfam_scen.extra(fam, "C16")
    fam.run(scenario=suvfam_scen.scenario)
    exception_specifications(rep)


def exception_specifications(rep):
    """The contracts model exception propagation (ghost sq_thrown) and the extraction drops exception specifications; that is only faithful if no function that
    may propagate std::bad_alloc is declared non-throwing (the exception would become std::terminate).  Supporting static fact, one obligation per specifier found:
    a `noexcept` / `throw()` in the library's sources is accepted only on a destructor, the default constructor or the move constructor of SU_vector, whose contracts
    prove that nothing is thrown (sq_thrown==0 in su_dtor / su_ctor_default / su_ctor_move)."""
    import os, re, extract
    n = 0
    for root in ("include/SQuIDS", "include/SQuIDS/detail", "src"):
        d = os.path.join(core.REPO, root)
        for f in sorted(os.listdir(d)):
            if not f.endswith((".h", ".cpp", ".tcc")):
                continue
            txt = extract.strip_comments(open(os.path.join(d, f)).read())
            for m in re.finditer(r'\bnoexcept\b(?!\s*\(\s*false\s*\))|\bthrow\s*\(\s*\)', txt):
                line = txt.count("\n", 0, m.start()) + 1
                start = max(txt.rfind(";", 0, m.start()), txt.rfind("}", 0, m.start()), txt.rfind("{", 0, m.start())) + 1
                decl = " ".join(txt[start:m.end()].split())
                ok = bool(re.search(r'~\s*SU_vector\s*\(|\bSU_vector\s*\(\s*\)|\bSU_vector\s*\(\s*SU_vector\s*&&', decl))
                n += 1
                oid = "C16.exception_specification.%s.%d" % (f, line)
                rep.add(oid, decl[:120], "L1", "static-scan", "discharged" if ok else "failed", 0.0, "%s/%s:%d" % (root, f, line),
                        "" if ok else "non-throwing exception specification on a function whose contract allows std::bad_alloc to propagate: `%s`" % decl[:200])
                if not ok:
                    path = core.write_replay("C16", oid, dict(obligation=oid, declaration=decl, verifier_output="static scan of exception specifications", reproduced=None))
                    rep.violation(oid, path, nofail=True)
    rep.rule("exception_specifications.found", n)
    rep.assume("exception specifications: %d non-throwing specifier(s) in include/SQuIDS, include/SQuIDS/detail, src (each one is an obligation)" % n)


def replay(path):
    ok = replaylib.run_replay("C16", path, prog="lifecycle")
    print("reproduced" if ok else "not reproduced")
    return 1 if ok else 0
