// Native replay scenarios for the SU_vector life-cycle family (C08 C09 C14 C15 C16).  Each scenario drives the PUBLIC API of the
// real library over a small exhaustive space (dimensions 2..6, storage kinds, alias patterns, failing allocation index) and
// evaluates the property's own oracle.  operator new[]/delete[] are replaced for the ledger and for fault injection.
#include <SQuIDS/SUNalg.h>
#include "replay_common.h"
#include <cstring>
#include <functional>
#include <new>
#include <set>
using namespace squids;
static long g_allocs=0, g_fail_at=-1, g_live=0, g_double=0; static std::set<void*> g_blocks;
static bool g_track=false;
void* operator new[](std::size_t n){ if(g_track){ g_allocs++; if(g_fail_at>=0 && g_allocs==g_fail_at) throw std::bad_alloc(); } void* p=std::malloc(n?n:1); if(!p) throw std::bad_alloc(); if(g_track){ g_track=false; g_blocks.insert(p); g_track=true; g_live++; } return p; }
void operator delete[](void* p) noexcept { if(!p) return; if(g_track){ g_track=false; if(!g_blocks.count(p)) g_double++; else { g_blocks.erase(p); g_live--; } g_track=true; } std::free(p); }
void operator delete[](void* p, std::size_t) noexcept { operator delete[](p); }
static int bad=0; static void fail(const std::string& s){ if(bad<12) std::printf("  violation: %s\n",s.c_str()); bad++; }
static void fill(SU_vector& v,double base){ for(unsigned i=0;i<v.Size();i++) v[i]=base+i; }
static bool holds(const SU_vector& v,double base){ for(unsigned i=0;i<v.Size();i++) if(v[i]!=base+i) return false; return true; }

int main(int argc,char** argv){
  Witness w(argv[1]); std::string sc=w.s("scenario");
  if(sc=="badalloc_assign"||sc=="theft_or_badalloc"){
    // C16: fail the k-th allocation inside a resizing assignment; afterwards every vector can be destroyed / reassigned and no block is owned twice
    for(int da=2;da<=6;da++) for(int db=2;db<=6;db++) if(da!=db) for(int form=0;form<2;form++){
      SU_vector::clear_mem_cache();
      { SU_vector a(da), b(db); fill(a,1); fill(b,100);
        g_track=true; g_allocs=0; g_fail_at=1; bool thrown=false;
        try{ if(form==0) a=b; else a=b*2.0; }catch(std::bad_alloc&){ thrown=true; }
        g_fail_at=-1; g_track=false;
        if(thrown){ if(!holds(b,100)) fail("operand changed by a failed assignment"); }
      }
      // a and b destroyed: now two fresh vectors of dimension da must not share storage
      SU_vector x(da), y(da); if(&x[0]==&y[0]) fail("after a failed resizing assignment (dims "+std::to_string(da)+"<-"+std::to_string(db)+") two fresh vectors share one block");
    }
  }
  if(sc=="theft_or_badalloc"||sc=="moves"){
    // C08: an expression that consumes an rvalue operand leaves the source assignable without affecting any other live vector
    for(int d=2;d<=6;d++) for(int d2=2;d2<=6;d2++) for(int form=0;form<4;form++){
      SU_vector s(d), wv(d2), o(d); fill(s,1); fill(wv,50); fill(o,7);
      SU_vector t;
      if(form==0) t=std::move(s)*2.0; else if(form==1) t=std::move(s)+o; else if(form==2) t=-std::move(s); else { SU_vector u(std::move(s)*3.0); t=u; }
      std::vector<double> before=t.GetComponents();
      s=wv;                               // the consumed source is assigned to
      if(t.GetComponents()!=before) fail("assigning to a consumed source changed the vector that took its storage (dim "+std::to_string(d)+", form "+std::to_string(form)+")");
      if(!(s==wv)) fail("consumed source does not hold the assigned value");
      SU_vector m(std::move(s)); SU_vector e; e=std::move(m); if(!(e==wv)) fail("move chain lost the value");
    }
    // external storage is never freed, resized or replaced
    for(int d=2;d<=6;d++){ std::vector<double> buf(d*d,3.0); SU_vector e(d,buf.data()); SU_vector o(d); fill(o,9); e=o; if(&e[0]!=buf.data()||buf[1]!=10.0) fail("assignment to external storage did not write the user's buffer");
      SU_vector c(e); if(&c[0]==buf.data()) fail("copy shares the external buffer"); }
  }
  if(sc=="alias_inplace"){
    // C09: v = op(a,b) with v aliasing an operand equals evaluation into a fresh temporary
    for(int d=2;d<=6;d++) for(int form=0;form<6;form++){
      SU_vector a(d), b(d); for(unsigned i=0;i<a.Size();i++){ a[i]=0.3+i*0.7; b[i]=1.1-0.2*i; }
      std::vector<double> buf(d*d); SU_vector e1(d,buf.data()), e2(d,buf.data()); for(unsigned i=0;i<e1.Size();i++) e1[i]=b[i];
      SU_vector ref, got;
      switch(form){
        case 0: ref=SU_vector(iCommutator(a,b)); { SU_vector v(b); v=iCommutator(a,v); got=v; } break;
        case 1: ref=SU_vector(ACommutator(a,b)); { SU_vector v(b); v=ACommutator(a,v); got=v; } break;
        case 2: ref=SU_vector(iCommutator(b,a)); { SU_vector v(b); v=iCommutator(v,a); got=v; } break;
        case 3: ref=SU_vector(iCommutator(a,b)); e2=iCommutator(a,e1); got=e2; for(unsigned i=0;i<e1.Size();i++) e1[i]=b[i]; break;   // shared external buffer
        case 4: { SU_vector h(d); h[d+1]=0.8; ref=SU_vector(b.Evolve(h,0.9)); SU_vector v(b); v=v.Evolve(h,0.9); got=v; } break;
        default:{ SU_vector h(d); h[d+1]=0.8; std::vector<double> eb(h.GetEvolveBufferSize()); h.PrepareEvolve(eb.data(),0.9); ref=SU_vector(b.Evolve(eb.data())); SU_vector v(b); v=v.Evolve(eb.data()); got=v; } break;
      }
      for(unsigned i=0;i<ref.Size();i++) if(std::abs(ref[i]-got[i])>1e-12){ fail("aliased fused evaluation differs from naive evaluation (dim "+std::to_string(d)+", form "+std::to_string(form)+")"); break; }
    }
  }
  if(sc=="ext_dim1"){ double buf[64]; for(unsigned d: {1u,7u,8u}){ bool t=false; try{ SU_vector v(d,buf); }catch(std::runtime_error&){ t=true; } if(!t) fail("SU_vector(dim="+std::to_string(d)+", buffer) was accepted"); } }
  if(sc=="make_aligned_dim"){ for(unsigned d: {1u,7u,8u}){ bool t=false; try{ SU_vector v=SU_vector::make_aligned(d); }catch(std::runtime_error&){ t=true; } if(!t) fail("make_aligned("+std::to_string(d)+") was accepted"); } }
  if(sc=="list_ctor"){
    for(size_t n=0;n<=64;n++){ bool sq=(n==4||n==9||n==16||n==25||n==36); if(n==0) continue;
      g_track=true; long live0=g_live; bool t=false; try{ std::vector<double> c(n,1.0); g_track=true; SU_vector v(c); }catch(std::runtime_error&){ t=true; } g_track=false;
      if(t==sq) fail("component list of length "+std::to_string(n)+(sq?" rejected":" accepted"));
      SU_vector::clear_mem_cache();
      if(g_live!=live0) { fail("construction from a list of length "+std::to_string(n)+" leaked "+std::to_string(g_live-live0)+" block(s)"); g_live=live0; } }
  }
  if(sc=="evolve_mismatch"||sc=="guards"){
    for(int d1=2;d1<=6;d1++) for(int d2=2;d2<=6;d2++) if(d1!=d2){
      SU_vector a(d1), b(d2); fill(a,1); fill(b,2); int n=0;
      auto expect=[&](const char* what,std::function<void()> f){ bool t=false; try{ f(); }catch(std::runtime_error&){ t=true; } if(!t) fail(std::string(what)+" accepted dimensions "+std::to_string(d1)+","+std::to_string(d2)); n++; };
      if(sc=="guards"){ expect("operator+",[&]{ SU_vector r=a+b; }); expect("operator-",[&]{ SU_vector r=a-b; }); expect("scalar product",[&]{ double x=a*b; (void)x; });
        expect("iCommutator",[&]{ SU_vector r=iCommutator(a,b); }); expect("ACommutator",[&]{ SU_vector r=ACommutator(a,b); }); expect("ElementwiseProduct",[&]{ SU_vector r=ElementwiseProduct(a,b); });
        expect("+=",[&]{ a+=b; }); expect("-=",[&]{ a-=b; }); }
      if(sc=="evolve_mismatch" && d1>d2) expect("Evolve(op,t)",[&]{ SU_vector big(d1); SU_vector r=b.Evolve(big,1.0); });   // op larger than the vector: no out-of-bounds access, only a missing exception
      if(!holds(a,1)||!holds(b,2)) fail("operand modified by a rejected operation");
    }
  }
  if(sc=="rotate_matrix_mismatch"){      // Rotate(U) with U of a smaller size: must be rejected, operand untouched (a larger U would be read out of bounds without the guard)
    for(int d=3;d<=6;d++) for(int m=2;m<d;m++){ SU_vector a(d); fill(a,1); gsl_matrix_complex* U=gsl_matrix_complex_alloc(m,m); gsl_matrix_complex_set_identity(U);
      bool t=false; try{ SU_vector r=a.Rotate(U); }catch(std::runtime_error&){ t=true; } if(!t) fail("Rotate(U) accepted a "+std::to_string(m)+"x"+std::to_string(m)+" matrix for dimension "+std::to_string(d));
      if(!holds(a,1)) fail("operand modified by a rejected Rotate(U)"); gsl_matrix_complex_free(U); } }
  std::printf("scenario=%s -> %s\n",sc.c_str(),bad?"REPRODUCED":"holds");
  return bad?1:0;
}
