// C05 native replay: grids (linear, log, user), x inside / at nodes / outside on both sides, through the public API.
#include <SQuIDS/SQuIDS.h>
#include "replay_common.h"
#include <cmath>
using namespace squids;
static int bad=0; static void fail(const std::string& s){ if(bad<12) std::printf("  violation: %s\n",s.c_str()); bad++; }
struct P: public SQuIDS{ P(unsigned nx):SQuIDS(nx,3,1,0,0.0){}
  SU_vector H0(double x,unsigned) const { SU_vector h(3); h[4]=0.3*x; h[8]=0.1*x*x; return h; }
  void fill(){ for(unsigned e=0;e<nx;e++){ state[e].rho[0].SetAllComponents(0); for(unsigned k=0;k<9;k++) state[e].rho[0][k]=0.1*(k+1)+0.05*e*e; } }
  void sett(double tt){ Set_t(tt); } };
int main(int argc,char** argv){
  Witness w(argv[1]);
  for(int g=0;g<3;g++) for(unsigned nx: {2u,3u,5u,8u}){
    P p(nx); if(g==0) p.Set_xrange(1.0,4.0,"linear"); else if(g==1) p.Set_xrange(1.0,40.0,"log"); else { std::vector<double> xs(nx); for(unsigned k=0;k<nx;k++) xs[k]=1.0+k*k*0.7; p.Set_xrange(xs); }
    p.fill(); p.sett(0.8); SU_vector op(3); for(unsigned k=0;k<9;k++) op[k]=0.2*k-0.5;
    auto x=p.Get_xrange(); double lo=x[0], hi=x[nx-1];
    for(double xo: {lo-1.0, lo-1e-9, hi+1e-9, hi+3.0}){ bool t1=false,t2=false; try{ p.GetExpectationValueD(op,0,xo); }catch(std::runtime_error&){ t1=true; } try{ p.GetIntermediateState(0,xo); }catch(std::runtime_error&){ t2=true; }
      if(!t1) fail("GetExpectationValueD answered x="+std::to_string(xo)+" outside ["+std::to_string(lo)+","+std::to_string(hi)+"]"); if(!t2) fail("GetIntermediateState answered x outside the node range"); }
    for(unsigned k=0;k<nx;k++){ double a=0, b=p.GetExpectationValue(op,0,k); try{ a=p.GetExpectationValueD(op,0,x[k]); }catch(std::runtime_error&){ fail("interpolating form rejects node "+std::to_string(k)+" of "+std::to_string(nx)); continue; } if(std::abs(a-b)>1e-10*(1+std::abs(b))) fail("interpolating form disagrees with the node form at node "+std::to_string(k)); }
    for(unsigned k=0;k+1<nx;k++){ double xm=0.3*x[k]+0.7*x[k+1]; SU_vector s=p.GetIntermediateState(0,xm); for(unsigned c=0;c<9;c++){ double e=0.3*(0.1*(c+1)+0.05*k*k)+0.7*(0.1*(c+1)+0.05*(k+1)*(k+1)); if(std::abs(s[c]-e)>1e-12) { fail("interpolated state is not the convex combination of the bracketing nodes"); break; } } }
  }
  std::printf("C05 -> %s\n",bad?"REPRODUCED":"holds"); return bad?1:0;
}
