// C19 native replay (no threads needed): the SHARED configuration of detail::cache (SQUIDS_THREAD_LOCAL undefined) with a payload
// type whose copy constructor performs the interfering insert at the moment get() copies the payload out of the record.
// If get() has already pushed the record onto the free list, the interfering insert recycles and overwrites it: the fetch
// returns the interferer's block, which is ALSO still in the cache (double hand-out), and the block it should return is lost.
#include <atomic>
#include <cstdint>
#include <cstddef>
#include <cstdio>
#include <SQuIDS/detail/Cache.h>
#include "replay_common.h"
struct Tok;
static squids::detail::cache<Tok,4>* g_cache=nullptr; static int g_hook=0;
struct Tok{ int id; Tok():id(0){} explicit Tok(int i):id(i){}
  Tok(const Tok& o){ if(g_hook){ g_hook=0; Tok t(99); g_cache->insert(t); } id=o.id; }
  Tok& operator=(const Tok& o){ id=o.id; return *this; } };
int main(int argc,char** argv){
  int bad=0;
  { squids::detail::cache<Tok,4> c; g_cache=&c;
    // sequential LIFO behaviour (both configurations share this code)
    for(int i=1;i<=4;i++) if(!c.insert(Tok(i))){ std::printf("insert %d failed below capacity\n",i); bad++; }
    if(c.insert(Tok(5))){ std::printf("insert succeeded above capacity\n"); bad++; }
    for(int i=4;i>=1;i--){ Tok t=c.get(); if(t.id!=i){ std::printf("get returned %d, expected %d\n",t.id,i); bad++; } }
    if(c.get().id!=0){ std::printf("get from empty cache returned a block\n"); bad++; } }
  { squids::detail::cache<Tok,4> c; g_cache=&c;
    c.insert(Tok(7));
    g_hook=1;                       // the next payload copy is interleaved with an insert of block 99 by "another thread"
    Tok got=c.get();
    int n99=(got.id==99), n7=(got.id==7);
    for(int k=0;k<4;k++){ Tok t=c.get(); if(t.id==99) n99++; if(t.id==7) n7++; }
    std::printf("after interleaved fetch: block 7 handed out %d time(s), block 99 handed out %d time(s)\n",n7,n99);
    if(n7!=1||n99!=1) bad++; }
  std::printf("%s\n",bad?"REPRODUCED":"holds");
  return bad?1:0;
}
