// Native replay for the solver-object families (C04 C10 C05): small problems with closed-form solutions, every hook depending on
// (node index, matrix/scalar index, time), layout with nx=3, nrhos=2, nscalars=2, all steppers, adaptive and fixed stepping,
// segments, moves.  Oracle: the documented kinetic equation solved in closed form.
#include <SQuIDS/SQuIDS.h>
#include "replay_common.h"
#include <cmath>
using namespace squids;
static int bad=0; static void fail(const std::string& s){ if(bad<12) std::printf("  violation: %s\n",s.c_str()); bad++; }
struct P: public SQuIDS{
  int npre=0; double lastpre=0;
  P(unsigned nx,unsigned nsun,unsigned nrho,unsigned nsc,double t0):SQuIDS(nx,nsun,nrho,nsc,t0){
    Set_xrange(1.0,3.0,"linear");
    for(unsigned e=0;e<nx;e++){ for(unsigned r=0;r<nrho;r++){ state[e].rho[r].SetAllComponents(0); state[e].rho[r][0]=1; state[e].rho[r][1]=1.0+0.1*e+0.01*r; }
      for(unsigned s=0;s<nsc;s++) state[e].scalar[s]=1.0+e+0.5*s; }
    Set_rel_error(1e-10); Set_abs_error(1e-10); Set_h(1e-3);
  }
  double w(unsigned ix,unsigned ir) const { return 0.7+0.3*ix+0.11*ir; }
  double g(unsigned ix,unsigned is) const { return 0.2+0.1*ix+0.05*is; }
  double c(unsigned ix,unsigned is) const { return 0.3+0.07*ix+0.2*is; }
  SU_vector H0(double x,unsigned ir) const { SU_vector h(nsun); return h; }
  SU_vector HI(unsigned ix,unsigned ir,double t) const { SU_vector h(nsun); h[nsun+1]=w(ix,ir)*(1+0.5*t); return h; }           // sigma_z-like, time dependent
  SU_vector GammaRho(unsigned ix,unsigned ir,double t) const { SU_vector h(nsun); h[0]=0.05*(1+ix+ir); return h; }               // uniform damping
  SU_vector InteractionsRho(unsigned ix,unsigned ir,double t) const { SU_vector h(nsun); return h; }
  double GammaScalar(unsigned ix,unsigned is,double t) const { return g(ix,is); }
  double InteractionsScalar(unsigned ix,unsigned is,double t) const { return c(ix,is); }
  void PreDerive(double t){ npre++; lastpre=t; }
  double rho(unsigned e,unsigned r,unsigned k) const { return state[e].rho[r][k]; }
  double sc(unsigned e,unsigned s) const { return state[e].scalar[s]; }
  double est(unsigned e,unsigned r,unsigned k) const { return estate[e].rho[r][k]; }
};
static void check(P& p,double t0,double t1,const char* what){
  for(unsigned e=0;e<3;e++){
    for(unsigned s=0;s<2;s++){ double g=p.g(e,s), c=p.c(e,s), s0=1.0+e+0.5*s; double ex=c/g+(s0-c/g)*std::exp(-g*(t1-t0));
      if(std::abs(p.sc(e,s)-ex)>1e-6) fail(std::string(what)+": scalar (node "+std::to_string(e)+", #"+std::to_string(s)+") = "+std::to_string(p.sc(e,s))+" expected "+std::to_string(ex)); }
    for(unsigned r=0;r<2;r++){ // d rho/dt = i[rho,HI] - {G,rho}: components (1,2) rotate with angle 2*int w(1+t/2) dt and decay with exp(-2*G0*dt)... for SU(2): c1' = cos*c1 -/+ sin*c2
      double w=p.w(e,r), ang=2*w*((t1-t0)+0.25*(t1*t1-t0*t0)), dmp=std::exp(-2*0.05*(1+e+r)*(t1-t0)); double a0=1.0+0.1*e+0.01*r;
      double c1=p.rho(e,r,1), c2=p.rho(e,r,2); double mag=std::sqrt(c1*c1+c2*c2);
      if(std::abs(mag-a0*dmp)>1e-6) fail(std::string(what)+": |coherence| of (node "+std::to_string(e)+", matrix "+std::to_string(r)+") = "+std::to_string(mag)+" expected "+std::to_string(a0*dmp));
      if(std::abs(std::abs(c1)-std::abs(a0*dmp*std::cos(ang)))>1e-6) fail(std::string(what)+": phase of (node "+std::to_string(e)+", matrix "+std::to_string(r)+")");
      for(unsigned k=0;k<4;k++) if(p.est(e,r,k)!=p.rho(e,r,k)) fail(std::string(what)+": in-step view differs from the stored state after Evolve"); }
  }
}
int main(int argc,char** argv){
  Witness w(argv[1]);
  const gsl_odeiv2_step_type* steps[]={gsl_odeiv2_step_rk4,gsl_odeiv2_step_rkf45,gsl_odeiv2_step_rk8pd};
  for(int st=0;st<3;st++) for(int adaptive=0;adaptive<2;adaptive++) for(double t0: {0.0,1.5}){
    P p(3,2,2,2,t0); p.Set_GSL_step(steps[st]); p.Set_AdaptiveStep(adaptive); p.Set_NumSteps(4000);
    p.Set_CoherentRhoTerms(true); p.Set_NonCoherentRhoTerms(true); p.Set_GammaScalarTerms(true); p.Set_OtherScalarTerms(true);
    p.Evolve(0.4); p.Evolve(0.0); p.Evolve(0.6);
    if(std::abs(p.Get_t()-(t0+1.0))>1e-9) fail("clock after segments 0.4+0+0.6 is "+std::to_string(p.Get_t()));
    check(p,t0,t0+1.0,"segments");
    P q(std::move(p)); q.Evolve(0.5); check(q,t0,t0+1.5,"after move construction");
    P r(3,2,2,2,7.0); r=std::move(q); r.Evolve(0.5); check(r,t0,t0+2.0,"after move assignment");
    if(std::abs(r.Get_t()-(t0+2.0))>1e-9) fail("clock after move assignment is "+std::to_string(r.Get_t()));
  }
  { P p(3,2,2,2,0.5); double s0=p.sc(1,1), r0=p.rho(2,1,1); p.Evolve(0.25); p.Evolve(0.5);   // no numerics: state bit-identical, clock advances, PreDerive(new t)
    if(p.sc(1,1)!=s0||p.rho(2,1,1)!=r0) fail("state changed with all numerical terms disabled");
    if(p.Get_t()!=1.25) fail("clock without numerics is "+std::to_string(p.Get_t())); if(p.npre!=2||p.lastpre!=1.25) fail("PreDerive not called once per Evolve with the new time"); }
  for(int k=0;k<5;k++){   // switching one term on and off again must not hide the others from Evolve (cached aggregate switch)
    P p(3,2,2,2,0.0); bool useGamma=(k==4);
    if(useGamma) p.Set_GammaScalarTerms(true); else p.Set_OtherScalarTerms(true);
    switch(k){ case 0: p.Set_CoherentRhoTerms(true); p.Set_CoherentRhoTerms(false); break; case 1: p.Set_NonCoherentRhoTerms(true); p.Set_NonCoherentRhoTerms(false); break;
      case 2: p.Set_OtherRhoTerms(true); p.Set_OtherRhoTerms(false); break; case 3: p.Set_GammaScalarTerms(true); p.Set_GammaScalarTerms(false); break;
      default: p.Set_OtherScalarTerms(true); p.Set_OtherScalarTerms(false); }
    double s0=p.sc(1,1); p.Evolve(1.0);
    double ex=useGamma? s0*std::exp(-p.g(1,1)) : s0+p.c(1,1);
    if(std::abs(p.sc(1,1)-ex)>1e-6) fail("after toggling switch #"+std::to_string(k)+" the remaining term is not integrated: scalar = "+std::to_string(p.sc(1,1))+" expected "+std::to_string(ex)); }
  std::printf("solver scenario=%s -> %s\n",w.has("scenario")?w.s("scenario").c_str():"?",bad?"REPRODUCED":"holds");
  return bad?1:0;
}
