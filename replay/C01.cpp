// C01 native replay: the obligation group `what` of dimension d on seeded inputs through the public API,
// against the dense-matrix oracle.  (Layer-2 counterexamples are real-arithmetic models; the failing
// instance is identified by (what,d[,ia]); component values are seeded.)
#include <SQuIDS/SUNalg.h>
#include "replay_common.h"
#include "oracle.h"
#include <random>
using namespace squids;
static Mat fromGSL(const gsl_matrix_complex* m,int d){ Mat r=zeros(d); for(int i=0;i<d;i++)for(int j=0;j<d;j++){ gsl_complex z=gsl_matrix_complex_get(m,i,j); r[i][j]=cx(GSL_REAL(z),GSL_IMAG(z)); } return r; }
int main(int argc,char** argv){
  Witness w(argv[1]);
  int what=w.l("what"), d=w.l("d"), ia=w.has("ia")?w.l("ia"):-1; unsigned seed=w.has("seed")?w.l("seed"):0;
  std::mt19937 g(seed+17); std::uniform_real_distribution<double> U(-2,2);
  long double err=0; int n=d*d;
  for(int rep=0;rep<20;rep++){
    std::vector<double> a(n),b(n); for(int i=0;i<n;i++){ a[i]=U(g); b[i]=U(g); }
    if(ia>=0){ std::fill(a.begin(),a.end(),0.0); a[ia]=1; }
    SU_vector A(a),B(b); double x=U(g);
    Mat MA=toMat(d,a), MB=toMat(d,b);
    if(what==1||what==4||what==5){ auto m=A.GetGSLMatrix(); err=std::max(err,maxdiff(fromGSL(m.get(),d),MA)); SU_vector C(m.get()); for(int i=0;i<n;i++) err=std::max<long double>(err,std::abs(C[i]-a[i])); }
    if(what==2||what==3){ // Hermitian H -> vector -> oracle matrix must be H
      gsl_matrix_complex* h=gsl_matrix_complex_alloc(d,d); for(int i=0;i<d;i++)for(int j=0;j<d;j++) gsl_matrix_complex_set(h,i,j,gsl_complex_rect((double)MA[i][j].real(),(double)MA[i][j].imag()));
      SU_vector C(h); err=std::max(err,maxdiff(toMat(d,C.GetComponents()),MA)); gsl_matrix_complex_free(h);
      if(what==3){ for(int k=0;k<d;k++){ SU_vector P=SU_vector::Projector(d,k); Mat E=zeros(d); E[k][k]=1; err=std::max(err,maxdiff(toMat(d,P.GetComponents()),E)); } }
    }
    if(what==6){ SU_vector T(A); T.Transpose(); Mat MT=toMat(d,T.GetComponents()); Mat X=zeros(d); for(int i=0;i<d;i++)for(int j=0;j<d;j++) X[i][j]=MA[j][i]; err=std::max(err,maxdiff(MT,X)); }
    if(what==7){ Mat R=toMat(d,A.Real().GetComponents()), I=toMat(d,A.Imag().GetComponents()); Mat XR=zeros(d),XI=zeros(d);
      for(int i=0;i<d;i++)for(int j=0;j<d;j++){ XR[i][j]=cx(MA[i][j].real(),0); XI[i][j]=cx(0,MA[i][j].imag()); }
      err=std::max(err,std::max(maxdiff(R,XR),maxdiff(I,XI))); }
    if(what==8){ SU_vector S=A+B, T=A-B, N=-A, V=A*x; SU_vector P(A),Q(A),Rr(A),W(A); P+=B; Q-=B; Rr*=x; W/=x;
      for(int i=0;i<n;i++){ long double e=0;
        e=std::max<long double>(e,std::abs(S[i]-(a[i]+b[i]))); e=std::max<long double>(e,std::abs(T[i]-(a[i]-b[i]))); e=std::max<long double>(e,std::abs(N[i]+a[i])); e=std::max<long double>(e,std::abs(V[i]-x*a[i]));
        e=std::max<long double>(e,std::abs(P[i]-(a[i]+b[i]))); e=std::max<long double>(e,std::abs(Q[i]-(a[i]-b[i]))); e=std::max<long double>(e,std::abs(Rr[i]-a[i]*x)); e=std::max<long double>(e,std::abs(W[i]-a[i]/x));
        err=std::max(err,e); } }
  }
  bool bad=err>1e-11L;
  std::printf("what=%d d=%d ia=%d err=%Lg -> %s\n",what,d,ia,err,bad?"REPRODUCED":"holds");
  return bad?1:0;
}
