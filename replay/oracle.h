// Independent dense-matrix oracle for the native replays: generalised Gell-Mann basis, Tr(la lb)=2 dab.
#pragma once
#include <complex>
#include <vector>
#include <cmath>
typedef std::complex<long double> cx;
typedef std::vector<std::vector<cx>> Mat;
inline Mat zeros(int d){ return Mat(d,std::vector<cx>(d,cx(0,0))); }
inline Mat toMat(int d,const std::vector<double>& c){
  Mat m=zeros(d);
  for(int i=0;i<d;i++) m[i][i]=c[0];
  for(int i=0;i<d;i++) for(int j=i+1;j<d;j++){
    m[i][j]=cx(c[d*i+j],-c[d*j+i]); m[j][i]=cx(c[d*i+j],c[d*j+i]);
  }
  for(int k=1;k<d;k++){
    long double x=c[d*k+k]*std::sqrt(2.0L/(k*(k+1.0L)));
    for(int i=0;i<k;i++) m[i][i]+=x;
    m[k][k]+=-k*x;
  }
  return m;
}
inline Mat mul(const Mat&a,const Mat&b){ int d=a.size(); Mat r=zeros(d); for(int i=0;i<d;i++)for(int j=0;j<d;j++)for(int k=0;k<d;k++) r[i][j]+=a[i][k]*b[k][j]; return r; }
inline Mat dag(const Mat&a){ int d=a.size(); Mat r=zeros(d); for(int i=0;i<d;i++)for(int j=0;j<d;j++) r[i][j]=std::conj(a[j][i]); return r; }
inline Mat add(const Mat&a,const Mat&b,cx s=1){ int d=a.size(); Mat r=zeros(d); for(int i=0;i<d;i++)for(int j=0;j<d;j++) r[i][j]=a[i][j]+s*b[i][j]; return r; }
inline Mat scale(const Mat&a,cx s){ int d=a.size(); Mat r=zeros(d); for(int i=0;i<d;i++)for(int j=0;j<d;j++) r[i][j]=s*a[i][j]; return r; }
inline long double maxdiff(const Mat&a,const Mat&b){ long double m=0; int d=a.size(); for(int i=0;i<d;i++)for(int j=0;j<d;j++) m=std::max(m,std::abs(a[i][j]-b[i][j])); return m; }
inline long double norm(const Mat&a){ long double m=0; for(auto&r:a)for(auto&x:r) m=std::max(m,std::abs(x)); return m; }
inline cx trace(const Mat&a){ cx t=0; for(size_t i=0;i<a.size();i++) t+=a[i][i]; return t; }
