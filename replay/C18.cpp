// C18 native replay of the thread-exit clause: worker threads create and destroy vectors (their blocks go to the thread's cache) and exit;
// afterwards every block the workers allocated must have been released.
#include <SQuIDS/SUNalg.h>
#include "replay_common.h"
#include <thread>
#include <atomic>
#include <new>
using namespace squids;
static std::atomic<long> g_live(0); static std::atomic<bool> g_track(false);
void* operator new[](std::size_t n){ void* p=std::malloc(n?n:1); if(!p) throw std::bad_alloc(); if(g_track) g_live++; return p; }
void operator delete[](void* p) noexcept { if(p && g_track) g_live--; std::free(p); }
void operator delete[](void* p,std::size_t) noexcept { operator delete[](p); }
int main(int argc,char** argv){
  g_track=true;
  for(int k=0;k<8;k++){ std::thread t([]{ for(int d=2;d<=6;d++){ SU_vector a(d), b(d); a[1]=1; b=a+a; } }); t.join(); }
  g_track=false;
  long left=g_live.load();
  std::printf("blocks allocated by exited worker threads and never released: %ld -> %s\n",left,left>0?"REPRODUCED":"holds");
  return left>0?1:0;
}
