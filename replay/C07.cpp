// C07 native replay: matrix_exponential of norm1 * M_n (a fixed dense non-normal n x n pattern, or a nilpotent/anti-Hermitian one) against a
// long-double scaling-and-squaring Taylor oracle; optionally after a history of previous calls with other sizes on the same thread.
#include <SQuIDS/detail/MatrixExp.h>
#include <gsl/gsl_complex_math.h>
#include <gsl/gsl_matrix.h>
#include "replay_common.h"
#include <complex>
#include <cmath>
typedef std::complex<long double> cx;
typedef std::vector<std::vector<cx>> Mat;
static Mat zeros(int d){ return Mat(d,std::vector<cx>(d,cx(0,0))); }
static Mat mul(const Mat&a,const Mat&b){ int d=a.size(); Mat r=zeros(d); for(int i=0;i<d;i++)for(int j=0;j<d;j++)for(int k=0;k<d;k++) r[i][j]+=a[i][k]*b[k][j]; return r; }
static long double n1(const Mat&a){ long double m=0; int d=a.size(); for(int j=0;j<d;j++){ long double s=0; for(int i=0;i<d;i++) s+=std::abs(a[i][j]); m=std::max(m,s);} return m; }
static Mat expm(Mat a){ int d=a.size(); int s=0; long double nn=n1(a); while(nn>0.25L){ nn/=2; s++; }
  for(auto&r:a)for(auto&x:r) x/=std::pow(2.0L,s);
  Mat r=zeros(d), t=zeros(d); for(int i=0;i<d;i++){ r[i][i]=1; t[i][i]=1; }
  for(int k=1;k<40;k++){ t=mul(t,a); for(auto&row:t)for(auto&x:row) x/=(long double)k; for(int i=0;i<d;i++)for(int j=0;j<d;j++) r[i][j]+=t[i][j]; }
  for(int i=0;i<s;i++) r=mul(r,r); return r; }
static Mat pattern(int n,int kind){ Mat m=zeros(n);
  for(int i=0;i<n;i++)for(int j=0;j<n;j++){
    long double re=std::sin(1.0L+3*i+7*j), im=std::cos(2.0L+5*i-3*j);
    if(kind==0) m[i][j]=cx(re,im);                                  // general dense
    else if(kind==1) m[i][j]=(j>i)?cx(re,im):cx(0,0);               // nilpotent
    else if(kind==2) m[i][j]=(i==j)?cx(0,re):(j>i?cx(re,im):cx(0,0)); // filled below
    else if(kind==4) m[i][j]=(i<2&&j<2)?cx(i==0?1:-1,0):((i==j)?cx(1e-4L*i,0):cx(0,0)); // K*[[1,1],[-1,-1]] (+) small diagonal: |A|^k grows, A^k does not (ell>0)
    else if(kind==5) m[i][j]=(j<i)?cx(re,im):cx(0,0);               // strictly lower triangular
    else m[i][j]=(i==j)?cx(re,im):cx(0,0); }                         // diagonal
  if(kind==2) for(int i=0;i<n;i++)for(int j=0;j<i;j++) m[i][j]=-std::conj(m[j][i]);  // anti-Hermitian
  return m; }
static long double run(int n,int kind,double norm,bool* threw){
  Mat m=pattern(n,kind); long double s=n1(m); for(auto&r:m)for(auto&x:r) x*=norm/s;
  gsl_matrix_complex* A=gsl_matrix_complex_alloc(n,n); gsl_matrix_complex* E=gsl_matrix_complex_alloc(n,n);
  for(int i=0;i<n;i++)for(int j=0;j<n;j++) gsl_matrix_complex_set(A,i,j,gsl_complex_rect((double)m[i][j].real(),(double)m[i][j].imag()));
  long double err=0; *threw=false;
  try{ squids::math_detail::matrix_exponential(E,A); }catch(std::exception& e){ std::printf("exception: %s\n",e.what()); *threw=true; }
  if(!*threw){ Mat mm=zeros(n); for(int i=0;i<n;i++)for(int j=0;j<n;j++){ gsl_complex z=gsl_matrix_complex_get(A,i,j); mm[i][j]=cx(GSL_REAL(z),GSL_IMAG(z)); }
    Mat ref=expm(mm); long double d=0;
    for(int i=0;i<n;i++)for(int j=0;j<n;j++){ gsl_complex z=gsl_matrix_complex_get(E,i,j); d=std::max(d,std::abs(cx(GSL_REAL(z),GSL_IMAG(z))-ref[i][j])); }
    err=d/std::max(1.0L,n1(ref)); }
  gsl_matrix_complex_free(A); gsl_matrix_complex_free(E); return err; }
int main(int argc,char** argv){
  Witness w(argv[1]);
  int n=w.l("n"), kind=w.has("kind")?w.l("kind"):0; double norm=w.d("norm"); bool threw=false;
  if(w.has("history")) for(size_t i=0;i<w.n("history");i++){ bool t2; run(w.l("history",i),0,1.0+0.7*i,&t2); }
  long double err=run(n,kind,norm,&threw);
  double tol=w.has("tol")?w.d("tol"):1e-11*std::max(1.0,norm);
  bool bad=threw||!(err<=tol);
  std::printf("n=%d kind=%d norm=%g relerr=%Lg tol=%g -> %s\n",n,kind,norm,err,tol,bad?"REPRODUCED":"holds");
  return bad?1:0;
}
