// C12 native replay: GetEigenSystem(order) of the vector with the given components; checks finiteness, M V = V diag(L), unitarity of V, ordering.
#include <SQuIDS/SUNalg.h>
#include <gsl/gsl_complex_math.h>
#include "replay_common.h"
#include "oracle.h"
#include <cmath>
using namespace squids;
int main(int argc,char** argv){
  Witness w(argv[1]);
  int d=w.l("d"); std::vector<double> c=w.dv("c"); c.resize(d*d,0.0); bool order=w.has("order")?w.l("order")!=0:true;
  SU_vector v(c);
  auto es=v.GetEigenSystem(order);
  Mat M=toMat(d,c), V=zeros(d); std::vector<long double> L(d);
  bool finite=true;
  for(int i=0;i<d;i++){ L[i]=gsl_vector_get(es.first.get(),i); if(!std::isfinite((double)L[i])) finite=false; }
  for(int i=0;i<d;i++)for(int j=0;j<d;j++){ gsl_complex z=gsl_matrix_complex_get(es.second.get(),i,j); V[i][j]=cx(GSL_REAL(z),GSL_IMAG(z)); if(!std::isfinite(GSL_REAL(z))||!std::isfinite(GSL_IMAG(z))) finite=false; }
  long double res=0, uni=0, scale=std::max<long double>(1,norm(M));
  if(finite){ Mat MV=mul(M,V); for(int i=0;i<d;i++)for(int j=0;j<d;j++) res=std::max(res,std::abs(MV[i][j]-V[i][j]*cx(L[j],0)));
    Mat G=mul(dag(V),V); for(int i=0;i<d;i++)for(int j=0;j<d;j++) uni=std::max(uni,std::abs(G[i][j]-cx(i==j?1:0,0))); }
  bool sorted=true; if(order&&finite) for(int i=1;i<d;i++) if(L[i]<L[i-1]) sorted=false;
  double tol=w.has("tol")?w.d("tol"):1e-8;
  bool bad=!finite||res>tol*scale||uni>tol||!sorted;
  std::printf("d=%d finite=%d residual=%Lg unitarity=%Lg sorted=%d -> %s\n",d,(int)finite,res,uni,(int)sorted,bad?"REPRODUCED":"holds");
  return bad?1:0;
}
