// C02 native replay: generator pair (ia,ib) of dimension d through the public API vs the dense-matrix oracle.
#include <SQuIDS/SUNalg.h>
#include "replay_common.h"
#include "oracle.h"
using namespace squids;
int main(int argc,char** argv){
  Witness w(argv[1]);
  int kind=w.l("kind"), d=w.l("d"), ia=w.l("ia"), ib=w.l("ib");
  std::vector<double> a(d*d,0.0), b(d*d,0.0); a[ia]=1; b[ib]=1;
  SU_vector A(a), B(b);
  Mat MA=toMat(d,a), MB=toMat(d,b), P=mul(MA,MB), Q=mul(MB,MA);
  long double err=0;
  if(kind==1){ SU_vector C=iCommutator(A,B); err=maxdiff(toMat(d,C.GetComponents()), scale(add(P,Q,-1),cx(0,1))); }
  else if(kind==2){ SU_vector C=ACommutator(A,B); err=maxdiff(toMat(d,C.GetComponents()), add(P,Q)); }
  else { double t=A*B; err=std::abs(cx(t,0)-trace(P)); }
  bool bad = err>1e-12L;
  std::printf("kind=%d d=%d ia=%d ib=%d err=%Lg -> %s\n",kind,d,ia,ib,err,bad?"REPRODUCED":"holds");
  return bad?1:0;
}
