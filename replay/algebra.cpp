// Native replay for the Layer-2 families (C03 evolution, C06 rotations, C11 averaging/filters, C13 factories):
// the failing obligation is identified by (family, what, d[, i, j]); inputs are seeded, the oracle is dense
// complex matrix arithmetic in long double written from the property text.
#include <SQuIDS/SUNalg.h>
#include <SQuIDS/const.h>
#include <gsl/gsl_complex_math.h>
#include "replay_common.h"
#include "oracle.h"
#include <random>
using namespace squids;
static std::vector<double> comps(const SU_vector& v){ return v.GetComponents(); }
static std::vector<long double> levels(int d,const std::vector<double>& h){ Mat M=toMat(d,h); std::vector<long double> r(d); for(int i=0;i<d;i++) r[i]=M[i][i].real(); return r; }
static int pairs(int d){ return d*(d-1)/2; }
// pair table: slot p <-> (j,k), j<k, row-major: (0,1),(0,2),..,(0,d-1),(1,2),...
static void pair_of(int d,int p,int& j,int& k){ int q=0; for(int jj=0;jj<d;jj++) for(int kk=jj+1;kk<d;kk++){ if(q==p){ j=jj;k=kk;return; } q++; } j=k=-1; }
int main(int argc,char** argv){
  Witness w(argv[1]);
  std::string fam=w.s("family"); int what=w.has("what")?w.l("what"):0, d=w.l("d"); unsigned seed=w.has("seed")?w.l("seed"):0;
  std::mt19937 g(seed+31); std::uniform_real_distribution<double> U(-2,2);
  int n=d*d; long double err=0; std::string note;
  for(int rep=0;rep<25;rep++){
    std::vector<double> a(n),h(n,0.0); for(int i=0;i<n;i++) a[i]=U(g);
    if(w.has("ia") && w.l("ia")>=0){ std::fill(a.begin(),a.end(),0.0); a[w.l("ia")]=1; }
    h[0]=U(g); for(int k=1;k<d;k++) h[d*k+k]=U(g);
    if(rep==1){ for(int k=1;k<d;k++) h[d*k+k]=0; }            // fully degenerate spectrum
    SU_vector A(a),H(h); double t=U(g)*3; if(rep==2) t=0;
    Mat MA=toMat(d,a); auto lv=levels(d,h);
    if(fam=="evolution"){
      SU_vector C=A.Evolve(H,t);
      Mat E=MA; for(int j=0;j<d;j++)for(int k=0;k<d;k++){ long double th=(lv[j]-lv[k])*t; E[j][k]=MA[j][k]*cx(std::cos(th),std::sin(th)); }
      std::vector<double> buf(H.GetEvolveBufferSize()); H.PrepareEvolve(buf.data(),t); SU_vector C2=A.Evolve(buf.data());
      if(what==1||what==3) err=std::max(err,maxdiff(toMat(d,comps(C)),E));
      if(what==3) err=std::max(err,maxdiff(toMat(d,comps(C2)),E));
      if(what==2) err=std::max(err,maxdiff(toMat(d,comps(C2)),toMat(d,comps(C))));
    }
    if(fam=="rotation"){
      int i=w.l("i"), j=w.l("j"); double th=U(g)*2, del=U(g)*2; if(rep==3){th=M_PI/2;} if(rep==4){del=0;}
      SU_vector C=A.Rotate(i,j,th,del);
      Mat Rm=zeros(d); for(int k=0;k<d;k++) Rm[k][k]=1;
      Rm[i][i]=std::cos((long double)th); Rm[j][j]=Rm[i][i];
      Rm[i][j]=std::sin((long double)th)*cx(std::cos((long double)del),-std::sin((long double)del));
      Rm[j][i]=-std::sin((long double)th)*cx(std::cos((long double)del),std::sin((long double)del));
      err=std::max(err,maxdiff(toMat(d,comps(C)),mul(dag(Rm),mul(MA,Rm))));
    }
    if(fam=="ucmu"){   // UTransform(U) = U^dagger A U, UDaggerTransform(U) = U A U^dagger, Rotate(U) = UTransform(U), for a complex (unitary) U
      gsl_matrix_complex* U=gsl_matrix_complex_alloc(d,d); Mat MU=zeros(d);
      // a unitary from two plane rotations with phases
      for(int i=0;i<d;i++) for(int j=0;j<d;j++) MU[i][j]=(i==j)?1:0;
      for(int k=0;k+1<d;k++){ Mat Rk=zeros(d); for(int i=0;i<d;i++) Rk[i][i]=1; long double th=0.4+0.3*k, de=0.7-0.2*k; Rk[k][k]=std::cos(th); Rk[k+1][k+1]=std::cos(th); Rk[k][k+1]=std::sin(th)*cx(std::cos(de),-std::sin(de)); Rk[k+1][k]=-std::sin(th)*cx(std::cos(de),std::sin(de)); MU=mul(Rk,MU); }
      for(int i=0;i<d;i++) for(int j=0;j<d;j++) gsl_matrix_complex_set(U,i,j,gsl_complex_rect((double)MU[i][j].real(),(double)MU[i][j].imag()));
      err=std::max(err,maxdiff(toMat(d,comps(A.UTransform(U))),mul(dag(MU),mul(MA,MU))));
      err=std::max(err,maxdiff(toMat(d,comps(A.UDaggerTransform(U))),mul(MU,mul(MA,dag(MU)))));
      err=std::max(err,maxdiff(toMat(d,comps(A.Rotate(U))),mul(dag(MU),mul(MA,MU))));
      gsl_matrix_complex_free(U);
    }
    if(fam=="mixing"){  // Const store, mixing matrix, RotateToB1/B0 vs U: U unitary, B1 = U^dagger A U = Rotate(U), B0 = U A U^dagger, B0 after B1 = identity, read-back
      Const P; Mat MU=zeros(d); for(int i=0;i<d;i++) MU[i][i]=1;
      std::vector<std::vector<double>> TH(d,std::vector<double>(d,0)), DE(d,std::vector<double>(d,0));
      for(int j=1;j<d;j++) for(int i=0;i<j;i++){ TH[i][j]=U(g)*2; DE[i][j]=U(g)*2; if(rep==3) TH[i][j]=M_PI/2; if(rep==4) DE[i][j]=0; P.SetMixingAngle(i,j,TH[i][j]); P.SetPhase(i,j,DE[i][j]); }
      for(int k=1;k<d;k++) P.SetEnergyDifference(k,0.5*k+rep);
      for(int j=1;j<d;j++) for(int i=0;i<j;i++){ if(P.GetMixingAngle(i,j)!=TH[i][j]||P.GetPhase(i,j)!=DE[i][j]) { err=1; note="parameter does not read back as stored"; } }
      for(int k=1;k<d;k++) if(P.GetEnergyDifference(k)!=0.5*k+rep){ err=1; note="energy difference does not read back as stored"; }
      { bool t1=false,t2=false,t3=false; try{ P.SetMixingAngle(2,1,0.1);}catch(std::runtime_error&){t1=true;} try{ P.GetPhase(1,SQUIDS_MAX_HILBERT_DIM);}catch(std::runtime_error&){t2=true;} try{ P.GetEnergyDifference(0);}catch(std::runtime_error&){t3=true;}
        if(!t1||!t2||!t3){ err=1; note="out-of-range or unordered state indices accepted"; } }
      for(int j=1;j<d;j++) for(int i=0;i<j;i++){ Mat Rk=zeros(d); for(int q=0;q<d;q++) Rk[q][q]=1; long double th=TH[i][j], de=DE[i][j];
        Rk[i][i]=std::cos(th); Rk[j][j]=std::cos(th); Rk[i][j]=std::sin(th)*cx(std::cos(de),-std::sin(de)); Rk[j][i]=-std::sin(th)*cx(std::cos(de),std::sin(de)); MU=mul(Rk,MU); }
      auto Um=P.GetTransformationMatrix(d); Mat GU=zeros(d);
      for(int i=0;i<d;i++) for(int j=0;j<d;j++){ gsl_complex z=gsl_matrix_complex_get(Um.get(),i,j); GU[i][j]=cx(GSL_REAL(z),GSL_IMAG(z)); }
      err=std::max(err,maxdiff(GU,MU)); { Mat I=zeros(d); for(int q=0;q<d;q++) I[q][q]=1; err=std::max(err,maxdiff(mul(dag(GU),GU),I)); }
      SU_vector B1=A; B1.RotateToB1(P); SU_vector B0=A; B0.RotateToB0(P); SU_vector back=B1; back.RotateToB0(P);
      err=std::max(err,maxdiff(toMat(d,comps(B1)),mul(dag(MU),mul(MA,MU))));
      err=std::max(err,maxdiff(toMat(d,comps(B0)),mul(MU,mul(MA,dag(MU)))));
      err=std::max(err,maxdiff(toMat(d,comps(back)),MA));
      err=std::max(err,maxdiff(toMat(d,comps(A.Rotate(Um.get()))),toMat(d,comps(B1))));
      err=std::max(err,maxdiff(toMat(d,comps(A.UDaggerTransform(Um.get()))),toMat(d,comps(B0))));
      { // WeightedRotation: W^dagger ( Y (V A V^dagger) Y ) W with V = W = the mixing matrix here; both overloads agree
        std::vector<double> y(n); for(int i=0;i<n;i++) y[i]=U(g); SU_vector Y(y); Mat MY=toMat(d,y);
        SU_vector W1=A; W1.WeightedRotation(P,Y,P); SU_vector W2=A; W2.WeightedRotation(Um.get(),Y,Um.get());
        Mat E=mul(dag(MU),mul(mul(MY,mul(mul(MU,mul(MA,dag(MU))),MY)),MU));
        long double sc=std::max<long double>(1,norm(E));
        err=std::max(err,maxdiff(toMat(d,comps(W1)),E)/sc); err=std::max(err,maxdiff(toMat(d,comps(W2)),E)/sc); }
    }
    if(fam=="factory"){
      for(int k=0;k<d;k++){ Mat E=zeros(d); E[k][k]=1; err=std::max(err,maxdiff(toMat(d,comps(SU_vector::Projector(d,k))),E)); }
      { Mat E=zeros(d); for(int k=0;k<d;k++) E[k][k]=1; err=std::max(err,maxdiff(toMat(d,comps(SU_vector::Identity(d))),E)); }
      for(int k=0;k<d;k++){ Mat E=zeros(d); for(int q=0;q<k;q++) E[q][q]=1; err=std::max(err,maxdiff(toMat(d,comps(SU_vector::PosProjector(d,k))),E)); }
      for(int k=0;k<d;k++){ Mat E=zeros(d); for(int q=d-k;q<d;q++) E[q][q]=1; err=std::max(err,maxdiff(toMat(d,comps(SU_vector::NegProjector(d,k))),E)); }
      for(int k=0;k<n;k++){ auto c=comps(SU_vector::Generator(d,k)); for(int q=0;q<n;q++) err=std::max<long double>(err,std::abs(c[q]-(q==k?1.0:0.0))); }
    }
    if(fam=="averaging"){
      int np=pairs(d); std::vector<double> buf(2*np), ref(2*np); H.PrepareEvolve(ref.data(),t);
      if(what==1){ // Avg: |omega t|>|scale| -> 0 & flagged, else plain table & not flagged
        double scale=std::abs(U(g))*2; std::vector<bool> avr(np,rep%2);
        H.PrepareEvolve(buf.data(),t,scale,avr);
        for(int p=0;p<np;p++){ int j,k; pair_of(d,p,j,k); long double ph=std::abs((lv[j]-lv[k])*t);
          bool cut = std::abs(std::abs((double)((lv[j]-lv[k])*t))-std::abs(scale))>1e-9 ? ph>std::abs(scale) : (bool)avr[p];
          if(avr[p]!=cut) err=std::max<long double>(err,1);
          long double ec=cut?0:ref[p], es=cut?0:ref[np+p];
          err=std::max<long double>(err,std::abs(buf[p]-ec)); err=std::max<long double>(err,std::abs(buf[np+p]-es)); } }
      if(what==2||what==3){ // LowPassFilter on omega (2) / AvgRampFilter on omega*t (3)
        double cutoff=std::abs(U(g))*2+0.1, ramp=std::abs(U(g))*cutoff*0.5; if(rep==5) ramp=0;
        if(rep==6||rep==7){ // boundary cases from the property's domain |ramp|<=|cutoff|: ramp=0 and a phase exactly on the cutoff
          std::fill(h.begin(),h.end(),0.0); if(rep==7) h[d+1]=0.5; H=SU_vector(h); lv=levels(d,h); t=1.0; ramp=0; cutoff=(rep==7)?1.0:0.0;
          H.PrepareEvolve(ref.data(),t);
          buf=ref; if(what==2) H.LowPassFilter(buf.data(),cutoff,ramp); else H.AvgRampFilter(buf.data(),t,cutoff,ramp);
          for(int p=0;p<np;p++){ int j,k; pair_of(d,p,j,k); long double x=std::abs((lv[j]-lv[k])*(what==2?1.0L:(long double)t));
            long double f = x>cutoff?0: (x>cutoff-ramp? (cutoff-x)/ramp : 1);
            if(!(std::isfinite(buf[p])&&std::isfinite(buf[np+p]))){ err=std::max<long double>(err,1); note="non-finite entry at the cutoff with zero ramp"; continue; }
            err=std::max<long double>(err,std::abs(buf[p]-ref[p]*f)); err=std::max<long double>(err,std::abs(buf[np+p]-ref[np+p]*f)); }
          continue; }
        buf=ref; if(what==2) H.LowPassFilter(buf.data(),cutoff,ramp); else H.AvgRampFilter(buf.data(),t,cutoff,ramp);
        for(int p=0;p<np;p++){ int j,k; pair_of(d,p,j,k); long double x=std::abs((lv[j]-lv[k])*(what==2?1.0L:(long double)t));
          long double f = x>cutoff?0: (x>cutoff-ramp? (cutoff-x)/ramp : 1);
          if(std::abs(x-cutoff)<1e-9||std::abs(x-(cutoff-ramp))<1e-9) continue;
          err=std::max<long double>(err,std::abs(buf[p]-ref[p]*f)); err=std::max<long double>(err,std::abs(buf[np+p]-ref[np+p]*f)); } }
      if(what==4){ // interval average
        double t0=U(g), t1=t0+std::abs(U(g))+0.1; H.PrepareEvolve(buf.data(),t0,t1);
        for(int p=0;p<np;p++){ int j,k; pair_of(d,p,j,k); long double om=lv[j]-lv[k];
          long double ec= om==0?1:(std::sin(om*t1)-std::sin(om*t0))/(om*(t1-t0)), es= om==0?0:(std::cos(om*t0)-std::cos(om*t1))/(om*(t1-t0));
          if(!(std::isfinite(buf[p])&&std::isfinite(buf[np+p]))){ err=std::max<long double>(err,1); note="non-finite table entry"; continue; }
          err=std::max<long double>(err,std::abs(buf[p]-ec)); err=std::max<long double>(err,std::abs(buf[np+p]-es)); } }
    }
  }
  bool bad=err>1e-9L;
  std::printf("family=%s what=%d d=%d err=%Lg %s -> %s\n",fam.c_str(),what,d,err,note.c_str(),bad?"REPRODUCED":"holds");
  return bad?1:0;
}
