// shared by the native replay programs: reads the flat witness file `key n v1 .. vn`
#pragma once
#include <cstdio>
#include <cstdlib>
#include <fstream>
#include <iostream>
#include <map>
#include <sstream>
#include <string>
#include <vector>
struct Witness{
  std::map<std::string,std::vector<std::string>> kv;
  explicit Witness(const char* path){
    std::ifstream f(path); std::string k; size_t n;
    while(f>>k>>n){ std::vector<std::string> v(n); for(auto& s:v) f>>s; kv[k]=v; }
  }
  bool has(const std::string& k) const { return kv.count(k)>0; }
  double d(const std::string& k,size_t i=0) const { return std::strtod(kv.at(k).at(i).c_str(),nullptr); }
  long   l(const std::string& k,size_t i=0) const { return std::strtol(kv.at(k).at(i).c_str(),nullptr,0); }
  std::string s(const std::string& k,size_t i=0) const { return kv.at(k).at(i); }
  size_t n(const std::string& k) const { return kv.at(k).size(); }
  std::vector<double> dv(const std::string& k) const { std::vector<double> r; for(size_t i=0;i<n(k);i++) r.push_back(d(k,i)); return r; }
};
