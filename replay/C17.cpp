// C17 native replay: grid given by the witness, through the public API of the real library.
#include <SQuIDS/SQuIDS.h>
#include "replay_common.h"
using namespace squids;
struct S: public SQuIDS{ S(unsigned nx):SQuIDS(nx,2,1,0,0.0){} };
int main(int argc,char** argv){
  Witness w(argv[1]);
  std::string mode = w.has("mode")? w.s("mode") : "get_i";
  if(mode=="get_i"){
    unsigned nx=w.l("nx"); std::vector<double> x=w.dv("x"); double xi=w.d("xi");
    S s(nx); s.Set_xrange(x);
    bool thrown=false; unsigned r=0;
    try{ r=s.Get_i(xi); }catch(std::runtime_error&){ thrown=true; }
    bool outside = xi<x[0] || xi>x[nx-1];
    bool bad = (thrown!=outside) || (!thrown && !(r<=nx-2 && x[r]<=xi && xi<=x[r+1]));
    std::printf("nx=%u xi=%.17g thrown=%d ret=%u -> %s\n",nx,xi,(int)thrown,r,bad?"REPRODUCED":"holds");
    return bad?1:0;
  }
  if(mode=="xrange"){
    unsigned nx=w.l("nx"); double a=w.d("a"), b=w.d("b"); std::string scale=w.s("scale");
    S s(nx); s.Set_xrange(a,b,scale);
    auto x=s.Get_xrange(); bool bad=false;
    for(unsigned k=0;k+1<nx;k++) if(!(x[k]<=x[k+1])) bad=true;
    if(scale=="linear" && x[0]!=a) bad=true;
    std::printf("xrange nx=%u a=%.17g b=%.17g first=%.17g last=%.17g -> %s\n",nx,a,b,x[0],x[nx-1],bad?"REPRODUCED":"holds");
    return bad?1:0;
  }
  return 2;
}
