/* C06: the parameter store of squids::Const (src/const.cpp): mixing angles, phases, energy differences read back exactly as stored; out-of-range or
 * unordered state indices are rejected without touching the store.  gsl_matrix_get/set by their documented bodies (with GSL's range check as an obligation).
 * Plain CBMC harnesses (no loops in the code; the comparison loops of the harness have constant bounds).  FN (job parameter) selects the function. */
#include "sq_prelude.h"
#include <SU_inc/dimension.h>
#define MAXD SQUIDS_MAX_HILBERT_DIM
struct gsl_matrix { size_t size1, size2, tda; double* data; };
static void gsl_matrix_set(struct gsl_matrix* m, size_t i, size_t j, double x){ __CPROVER_assert(i<m->size1 && j<m->size2, "gsl_matrix_set: indices inside the matrix (GSL range check would abort)"); m->data[i*m->tda+j]=x; }
static double gsl_matrix_get(const struct gsl_matrix* m, size_t i, size_t j){ __CPROVER_assert(i<m->size1 && j<m->size2, "gsl_matrix_get: indices inside the matrix (GSL range check would abort)"); return m->data[i*m->tda+j]; }
struct Const { struct gsl_matrix* th; struct gsl_matrix* dcp; struct gsl_matrix* de; };
#undef SQ_RET
#define SQ_RET
void Const_SetMixingAngle(struct Const* self, unsigned int state1, unsigned int state2, double angle){
//@BODY file=src/const.cpp sig=/void\s+Const::SetMixingAngle\s*\(/ rules=common,const_store
}
void Const_SetPhase(struct Const* self, unsigned int state1, unsigned int state2, double phase){
//@BODY file=src/const.cpp sig=/void\s+Const::SetPhase\s*\(/ rules=common,const_store
}
void Const_SetEnergyDifference(struct Const* self, unsigned int upperState, double diff){
//@BODY file=src/const.cpp sig=/void\s+Const::SetEnergyDifference\s*\(/ rules=common,const_store
}
#undef SQ_RET
#define SQ_RET 0.0
double Const_GetMixingAngle(const struct Const* self, unsigned int state1, unsigned int state2){
//@BODY file=src/const.cpp sig=/double\s+Const::GetMixingAngle\s*\(/ rules=common,const_store
}
double Const_GetPhase(const struct Const* self, unsigned int state1, unsigned int state2){
//@BODY file=src/const.cpp sig=/double\s+Const::GetPhase\s*\(/ rules=common,const_store
}
double Const_GetEnergyDifference(const struct Const* self, unsigned int upperState){
//@BODY file=src/const.cpp sig=/double\s+Const::GetEnergyDifference\s*\(/ rules=common,const_store
}
static double TH[MAXD*MAXD], DCP[MAXD*MAXD], DE[MAXD-1], TH0[MAXD*MAXD], DCP0[MAXD*MAXD], DE0[MAXD-1];
static struct gsl_matrix mth={MAXD,MAXD,MAXD,TH}, mdcp={MAXD,MAXD,MAXD,DCP}, mde={MAXD-1,1,1,DE};   /* as allocated by Const::Const() (sizes checked by the harness rule const.ctor) */
static void mk(struct Const* c){ c->th=&mth; c->dcp=&mdcp; c->de=&mde;
  for(int k=0;k<MAXD*MAXD;k++){ TH[k]=nondet_double(); DCP[k]=nondet_double(); TH0[k]=TH[k]; DCP0[k]=DCP[k]; } for(int k=0;k<MAXD-1;k++){ DE[k]=nondet_double(); DE0[k]=DE[k]; } sq_thrown=0; }
static int unchanged_except(const double* a, const double* a0, int n, int skip){ int ok=1; for(int k=0;k<n;k++) if(k!=skip) ok = ok && SQ_SAME(a[k],a0[k]); return ok; }
int main(void){
  struct Const c; mk(&c); unsigned s1=nondet_unsigned(), s2=nondet_unsigned(); double v=nondet_double();
  /* mixing angles are stored for pairs s1<s2<MAXD (so s1<MAXD-1); phases likewise; energy differences for upper states 1..MAXD-1 */
  int pair_ok = s1<s2 && s2<MAXD;
#if FN==0
  Const_SetMixingAngle(&c,s1,s2,v);
  __CPROVER_assert((sq_thrown==1)==!pair_ok, "C06: SetMixingAngle rejects exactly unordered, equal or out-of-range state indices");
  __CPROVER_assert(unchanged_except(TH,TH0,MAXD*MAXD,pair_ok?(int)(s1*MAXD+s2):-1) && unchanged_except(DCP,DCP0,MAXD*MAXD,-1) && unchanged_except(DE,DE0,MAXD-1,-1), "C06: only the addressed angle is written (nothing on rejection)");
  if(pair_ok){ sq_thrown=0; double r=Const_GetMixingAngle(&c,s1,s2); __CPROVER_assert(sq_thrown==0 && SQ_SAME(r,v), "C06: a mixing angle reads back exactly as stored"); }
#elif FN==1
  double r=Const_GetMixingAngle(&c,s1,s2);
  __CPROVER_assert((sq_thrown==1)==!pair_ok, "C06: GetMixingAngle rejects exactly unordered, equal or out-of-range state indices");
  __CPROVER_assert(!pair_ok || SQ_SAME(r,TH0[(s1*MAXD+s2)%(MAXD*MAXD)]), "C06: GetMixingAngle returns the stored angle of that pair");
  __CPROVER_assert(unchanged_except(TH,TH0,MAXD*MAXD,-1) && unchanged_except(DCP,DCP0,MAXD*MAXD,-1) && unchanged_except(DE,DE0,MAXD-1,-1), "C06: queries do not modify the store");
#elif FN==2
  Const_SetPhase(&c,s1,s2,v);
  __CPROVER_assert((sq_thrown==1)==!pair_ok, "C06: SetPhase rejects exactly unordered, equal or out-of-range state indices");
  __CPROVER_assert(unchanged_except(DCP,DCP0,MAXD*MAXD,pair_ok?(int)(s1*MAXD+s2):-1) && unchanged_except(TH,TH0,MAXD*MAXD,-1) && unchanged_except(DE,DE0,MAXD-1,-1), "C06: only the addressed phase is written (nothing on rejection)");
  if(pair_ok){ sq_thrown=0; double r=Const_GetPhase(&c,s1,s2); __CPROVER_assert(sq_thrown==0 && SQ_SAME(r,v), "C06: a phase reads back exactly as stored"); }
#elif FN==3
  double r=Const_GetPhase(&c,s1,s2);
  __CPROVER_assert((sq_thrown==1)==!pair_ok, "C06: GetPhase rejects exactly unordered, equal or out-of-range state indices");
  __CPROVER_assert(!pair_ok || SQ_SAME(r,DCP0[(s1*MAXD+s2)%(MAXD*MAXD)]), "C06: GetPhase returns the stored phase of that pair");
  __CPROVER_assert(unchanged_except(TH,TH0,MAXD*MAXD,-1) && unchanged_except(DCP,DCP0,MAXD*MAXD,-1) && unchanged_except(DE,DE0,MAXD-1,-1), "C06: queries do not modify the store");
#elif FN==4
  int up_ok = s1>=1 && s1<MAXD;
  Const_SetEnergyDifference(&c,s1,v);
  __CPROVER_assert((sq_thrown==1)==!up_ok, "C06: SetEnergyDifference rejects exactly upper state 0 and out-of-range states");
  __CPROVER_assert(unchanged_except(DE,DE0,MAXD-1,up_ok?(int)(s1-1):-1) && unchanged_except(TH,TH0,MAXD*MAXD,-1) && unchanged_except(DCP,DCP0,MAXD*MAXD,-1), "C06: only the addressed energy difference is written (nothing on rejection)");
  if(up_ok){ sq_thrown=0; double r=Const_GetEnergyDifference(&c,s1); __CPROVER_assert(sq_thrown==0 && SQ_SAME(r,v), "C06: an energy difference reads back exactly as stored"); }
#else
  int up_ok = s1>=1 && s1<MAXD;
  double r=Const_GetEnergyDifference(&c,s1);
  __CPROVER_assert((sq_thrown==1)==!up_ok, "C06: GetEnergyDifference rejects exactly upper state 0 and out-of-range states");
  __CPROVER_assert(!up_ok || SQ_SAME(r,DE0[(s1-1)%(MAXD-1)]), "C06: GetEnergyDifference returns the stored value of that state");
  __CPROVER_assert(unchanged_except(TH,TH0,MAXD*MAXD,-1) && unchanged_except(DCP,DCP0,MAXD*MAXD,-1) && unchanged_except(DE,DE0,MAXD-1,-1), "C06: queries do not modify the store");
#endif
  __CPROVER_assert(0,"REACH end of harness");
  return 0;
}
