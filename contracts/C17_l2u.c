/* C17, node values of SQuIDS::Set_xrange(xi,xf,scale), linear (SCALE=0) and logarithmic (SCALE=1) scale, in real arithmetic for EVERY grid length (unbounded): the loop of the extracted
 * body carries a loop contract (ghost indices g1, g1+1 in place of a quantifier); goto-instrument --apply-loop-contracts turns it into base case and
 * inductive step, and the VC of the instrumented program goes through the FP->Real swap.  The conversion unsigned -> double of the symbolic counter is the
 * uninterpreted sq_u2r with ground axiom instances (tools/fp2real.py u2r_axioms).  Obligations: invariant base + step, termination measure, and for
 * arbitrary g1 < nx: x[g1] has the documented value, x[0]=xi, x[nx-1]=xf, x[g1] < x[g1+1].
 * Log scale: libm exp/log are uninterpreted functions with ground instances of `strictly increasing` and `exp(log a)=a` (tools/l2.py explog_axioms);
 * CBMC admits no calls inside a loop invariant, so the documented values of nodes g1, g1+1 are computed into ghosts gV0, gV1 before the call. */
typedef double R; R nondet_R(void); unsigned nondet_u(void);
enum { TOK_other=0, TOK_linear, TOK_Linear, TOK_lin, TOK_Lin, TOK_log, TOK_Log };
static int sq_thrown;
#define SQ_THROW(...) do{ sq_thrown=1; return; }while(0)
#ifndef NXMAX
#define NXMAX 1000000u      /* size of the array object only; no loop is unwound */
#endif
R __CPROVER_uninterpreted_log(R);
R __CPROVER_uninterpreted_exp(R);
#define log(a) __CPROVER_uninterpreted_log(a)
#define exp(a) __CPROVER_uninterpreted_exp(a)
static unsigned g1;                                   /* ghost index, fixed before the call */
#define LINV(k) (xi+(xf-xi)*(R)(k)/(R)(nx-1))
#define LOGV(k) __CPROVER_uninterpreted_exp(__CPROVER_uninterpreted_log(xi)+(__CPROVER_uninterpreted_log(xf)-__CPROVER_uninterpreted_log(xi))*(R)(k)/(R)(nx-1))
static R gV0, gV1;                                    /* ghosts: documented log-scale values of nodes g1 and g1+1 */
static void Set_xrange3(R* x, unsigned nx, R xi, R xf, int type){
//@BODY file=src/SQuIDS.cpp sig=/void\s+SQuIDS::Set_xrange\s*\(\s*double/ rules=common
//@SUB /type\s*==\s*"([A-Za-z]+)"/type==TOK_\1/ min=6
//@LOOP 0 __CPROVER_assigns(e1, __CPROVER_object_whole(x))
//@+ __CPROVER_loop_invariant(e1<=nx && (g1<e1 ==> x[g1]==LINV(g1)) && (g1+1<e1 ==> x[g1+1]==LINV(g1+1)))
//@+ __CPROVER_decreases(nx-e1)
//@LOOP 1 __CPROVER_assigns(e1, __CPROVER_object_whole(x))
//@+ __CPROVER_loop_invariant(e1<=nx && (g1<e1 ==> x[g1]==gV0) && (g1+1<e1 ==> x[g1+1]==gV1))
//@+ __CPROVER_decreases(nx-e1)
}
static R X[NXMAX];
int main(void){
  unsigned nx=nondet_u(); __CPROVER_assume(nx>=2 && nx<=NXMAX);
  R xi=nondet_R(), xf=nondet_R(); __CPROVER_assume(xi<xf);
  g1=nondet_u(); __CPROVER_assume(g1<nx);
  sq_thrown=0;
#if SCALE==0
  int type=TOK_LINNAME;
#else
  int type=TOK_LOGNAME; __CPROVER_assume(xi>=1.0e-10);
  gV0=LOGV(g1); gV1=LOGV(g1+1);
#endif
  Set_xrange3(X,nx,xi,xf,type);
  __CPROVER_assert(!sq_thrown, "C17: a valid range is accepted");
#if SCALE==0
  __CPROVER_assert(X[g1]==xi+(xf-xi)*(R)g1/(R)(nx-1), "C17: every node has the documented value");
#else
  __CPROVER_assert(X[g1]==gV0, "C17: every node has the documented value");
#endif
  __CPROVER_assert(g1!=0 || X[g1]==xi, "C17: the first node is the requested lower end");
  __CPROVER_assert(g1!=nx-1 || X[g1]==xf, "C17: the last node is the requested upper end");
  __CPROVER_assert(g1+1>=nx || X[g1]<X[g1+1], "C17: the grid is strictly increasing");
  return 0;
}
