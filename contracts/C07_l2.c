/* C07 (conformance only): the Pade numerator/denominator assembly pade3/5/7/9/13 (src/MatrixExp.cpp) by the scalar homomorphism:
 * every operation they perform is a ring operation on {A, A2, A4, A6, id} (helper contracts: O=s*I, O+=s*I, zgemm), so it suffices to run the
 * extracted functions on 1x1 real matrices with A2=a^2, A4=a^4, A6=a^6, id=1 and compare with the [m/m] Pade polynomials of exp:
 *   U+V = sum_{k<=m} b_k a^k,  V-U = sum_{k<=m} b_k (-a)^k,  b_k = (2m-k)! m! / ((2m)! k! (m-k)!) * b_0   (integers for the b_0 used).
 * Parameters: M in {3,5,7,9,13}; the coefficient table PADE_B is generated from the closed formula by the check (not copied from the code). */
#include <stdbool.h>
#include "l2_prelude.h"
#include "l2_gsl.h"
#ifndef MODE
#define MODE 1
#endif
#ifndef M
#define M 13
#endif
#ifndef PADE_B
#define PADE_B 0
#endif
#define SQ_ASSERT(e)  __CPROVER_assert((e), "assert() of the real code")
typedef enum { CblasNoTrans=111, CblasTrans=112, CblasConjTrans=113 } CBLAS_TRANSPOSE_t;
static gsl_complex gsl_complex_rect(R x, R y){ gsl_complex z={{x,y}}; return z; }
static gsl_complex gsl_complex_mul(gsl_complex a, gsl_complex b){ gsl_complex z={{a.dat[0]*b.dat[0]-a.dat[1]*b.dat[1], a.dat[0]*b.dat[1]+a.dat[1]*b.dat[0]}}; return z; }
static gsl_complex gsl_complex_add(gsl_complex a, gsl_complex b){ gsl_complex z={{a.dat[0]+b.dat[0], a.dat[1]+b.dat[1]}}; return z; }
#define GSL_COMPLEX_ONE  gsl_complex_rect(1.0,0.0)
#define GSL_COMPLEX_ZERO gsl_complex_rect(0.0,0.0)
struct holder { gsl_matrix_complex m; };
static void holder_reset(struct holder* h, unsigned a, unsigned b){ h->m.size1=a; h->m.size2=b; h->m.tda=b; h->m.data[0]=nondet_R(); h->m.data[1]=nondet_R(); }
static int gsl_blas_zgemm(CBLAS_TRANSPOSE_t TA, CBLAS_TRANSPOSE_t TB, gsl_complex alpha, const gsl_matrix_complex* A, const gsl_matrix_complex* B, gsl_complex beta, gsl_matrix_complex* C){
  gsl_complex p=gsl_complex_mul(gsl_matrix_complex_get(A,0,0),gsl_matrix_complex_get(B,0,0));       /* 1x1: C := alpha*A*B + beta*C */
  gsl_matrix_complex_set(C,0,0,gsl_complex_add(gsl_complex_mul(alpha,p),gsl_complex_mul(beta,gsl_matrix_complex_get(C,0,0)))); return 0; }
static void gsl_matrix_complex_mul(gsl_matrix_complex* O, const gsl_matrix_complex* I, gsl_complex s){
//@BODY file=src/MatrixExp.cpp sig=/void\s+gsl_matrix_complex_mul\s*\(/ rules=common
}
static void gsl_matrix_complex_add(gsl_matrix_complex* O, const gsl_matrix_complex* I, gsl_complex s){
//@BODY file=src/MatrixExp.cpp sig=/void\s+gsl_matrix_complex_add\s*\(/ rules=common
}
#if MODE==1
#if M==3
static void pade(const gsl_matrix_complex* A, const gsl_matrix_complex* id, const gsl_matrix_complex* A2, const gsl_matrix_complex* A4, const gsl_matrix_complex* A6, gsl_matrix_complex* U, gsl_matrix_complex* V){
//@BODY file=src/MatrixExp.cpp sig=/void\s+pade3\s*\(/ rules=common,padeb,pade
}
#elif M==5
static void pade(const gsl_matrix_complex* A, const gsl_matrix_complex* id, const gsl_matrix_complex* A2, const gsl_matrix_complex* A4, const gsl_matrix_complex* A6, gsl_matrix_complex* U, gsl_matrix_complex* V){
//@BODY file=src/MatrixExp.cpp sig=/void\s+pade5\s*\(/ rules=common,padeb,pade
}
#elif M==7
static void pade(const gsl_matrix_complex* A, const gsl_matrix_complex* id, const gsl_matrix_complex* A2, const gsl_matrix_complex* A4, const gsl_matrix_complex* A6, gsl_matrix_complex* U, gsl_matrix_complex* V){
//@BODY file=src/MatrixExp.cpp sig=/void\s+pade7\s*\(/ rules=common,padeb,pade
}
#elif M==9
static void pade(const gsl_matrix_complex* A, const gsl_matrix_complex* id, const gsl_matrix_complex* A2, const gsl_matrix_complex* A4, const gsl_matrix_complex* A6, gsl_matrix_complex* U, gsl_matrix_complex* V){
  R hA8[2]; struct holder A8_={{1,1,1,hA8}};
//@BODY file=src/MatrixExp.cpp sig=/void\s+pade9\s*\(/ rules=common,padeb,pade
}
#else
static void pade(const gsl_matrix_complex* A, const gsl_matrix_complex* id, const gsl_matrix_complex* A2, const gsl_matrix_complex* A4, const gsl_matrix_complex* A6, gsl_matrix_complex* U, gsl_matrix_complex* V){
  R htmp[2]; struct holder tmp_={{1,1,1,htmp}};
//@BODY file=src/MatrixExp.cpp sig=/void\s+pade13\s*\(/ rules=common,padeb,pade
}
#endif
int main(void){
  R a=nondet_R();
  R dA[2]={a,0}, dI[2]={1,0}, d2[2]={a*a,0}, d4[2]={a*a*a*a,0}, d6[2]={a*a*a*a*a*a,0}, dU[2]={nondet_R(),nondet_R()}, dV[2]={nondet_R(),nondet_R()};
  gsl_matrix_complex A={1,1,1,dA}, I={1,1,1,dI}, A2={1,1,1,d2}, A4={1,1,1,d4}, A6={1,1,1,d6}, U={1,1,1,dU}, V={1,1,1,dV};
  pade(&A,&I,&A2,&A4,&A6,&U,&V);
  static const R B[]={ PADE_B };
  R p=0, q=0, pw=1;
  for(int k=0;k<=M;k++){ p+=B[k]*pw; q+=((k%2)?-B[k]:B[k])*pw; pw=pw*a; }
  __CPROVER_assert(dU[0]+dV[0]==p && dU[1]==0 && dV[1]==0, "C07: U+V is the numerator of the [m/m] Pade approximant of exp");
  __CPROVER_assert(dV[0]-dU[0]==q, "C07: V-U is its denominator");
  return 0;
}
#endif
/* ------------------------------------------------------------------------------------------------------------------------------------
 * MODE 2: the order-13 path of matrix_exponential (from `double d10 = ...` to the end) on the 1x1 complex model.  Callee contracts:
 *   pade13      requires id==1, A2==B^2, A4==B^4, A6==B^6 for the matrix B it is handed (its own postcondition is MODE 1);
 *   solve_P_Q   returns an arbitrary r;  ell returns ELL (job parameter) ;  one_normest_product returns an arbitrary value >= 0;
 *   ceil(log(x)/ln 2) returns the integer u with 2^(u-1) < x <= 2^u  (x in (0,4], so u <= 2: the bound of this job);
 *   pow(2,k) exact for the integers k that occur, arbitrary otherwise.
 * Obligations: the scaled matrix satisfies eta_5*2^-s0 <= 4.25 (theta_13 of Higham 2009) before ell is consulted; pade13's precondition;
 * the result is r^(2^s) with s = s0 + ell.                                                                                              */
#if MODE==2
#ifndef ELL
#define ELL 0
#endif
#ifndef U0
#define U0 0
#endif
static gsl_complex cmul(gsl_complex a, gsl_complex b){ return gsl_complex_mul(a,b); }
static int ceq(gsl_complex a, gsl_complex b){ return a.dat[0]==b.dat[0] && a.dat[1]==b.dat[1]; }
static gsl_complex g_r, g_B, g_ellarg; static int n_pade13, n_solve, n_ell; static R g_d10; static int g_u;
static void pade13(const gsl_matrix_complex* B, const gsl_matrix_complex* id, const gsl_matrix_complex* A2, const gsl_matrix_complex* A4, const gsl_matrix_complex* A6, gsl_matrix_complex* U, gsl_matrix_complex* V){
  gsl_complex b=gsl_matrix_complex_get(B,0,0), b2=cmul(b,b), b4=cmul(b2,b2), b6=cmul(b2,b4);
  __CPROVER_assert(ceq(gsl_matrix_complex_get(id,0,0),gsl_complex_rect(1.0,0.0)), "C07: pade13 requires id == identity");
  __CPROVER_assert(ceq(gsl_matrix_complex_get(A2,0,0),b2), "C07: pade13 requires A2 == B^2 for the scaled matrix B it is handed");
  __CPROVER_assert(ceq(gsl_matrix_complex_get(A4,0,0),b4), "C07: pade13 requires A4 == B^4 for the scaled matrix B it is handed");
  __CPROVER_assert(ceq(gsl_matrix_complex_get(A6,0,0),b6), "C07: pade13 requires A6 == B^6 for the scaled matrix B it is handed");
  g_B=b; n_pade13++; U->data[0]=nondet_R(); U->data[1]=nondet_R(); V->data[0]=nondet_R(); V->data[1]=nondet_R(); }
static void solve_P_Q(const gsl_matrix_complex* U, const gsl_matrix_complex* V, gsl_matrix_complex* eA){ gsl_matrix_complex_set(eA,0,0,g_r); n_solve++; }
static int ell(const gsl_matrix_complex* A, unsigned m){ __CPROVER_assert(m==13, "C07: ell consulted for order 13"); g_ellarg=gsl_matrix_complex_get(A,0,0); n_ell++; return ELL; }
static R one_normest_product(const gsl_matrix_complex* A, const gsl_matrix_complex* B){ R x=nondet_R(); __CPROVER_assume(x>=0); return x; }
static R sq_pow2i(int k){ switch(k){ case 0: return 1.0; case -1: return 0.5; case -2: return 0.25; case -3: return 0.125; case -4: return 0.0625; case -5: return 0.03125;
  case -6: return 1.0/64; case -7: return 1.0/128; case -8: return 1.0/256; case -9: return 1.0/512; case -10: return 1.0/1024; case -11: return 1.0/2048; case -12: return 1.0/4096;
  case -13: return 1.0/8192; case -14: return 1.0/16384; case -15: return 1.0/32768; case -16: return 1.0/65536; case -17: return 1.0/131072; case -18: return 1.0/262144;
  case 1: return 2.0; case 2: return 4.0; default: { R x=nondet_R(); return x; } } }
static R sq_pow(R b, R x){ if(b==2.0){ for(int k=-18;k<=2;k++) if(x==(R)k) return sq_pow2i(k); } if(x==0.1) return g_d10; return nondet_R(); }
static int sq_ceil_log2(R x){ int u=g_u; __CPROVER_assume(u>=-3 && u<=2); __CPROVER_assume(sq_pow2i(u-1)<x && x<=sq_pow2i(u)); return u; }
static R sq_max(R a, R b){ return a>b?a:b; }  static R sq_min(R a, R b){ return a<b?a:b; }  static int sq_imax(int a,int b){ return a>b?a:b; }
static void gsl_matrix_complex_memcpy(gsl_matrix_complex* d, const gsl_matrix_complex* s){ d->data[0]=s->data[0]; d->data[1]=s->data[1]; }
static void gsl_matrix_complex_scale(gsl_matrix_complex* m, gsl_complex z){ gsl_matrix_complex_set(m,0,0,cmul(gsl_matrix_complex_get(m,0,0),z)); }
static void tail(gsl_matrix_complex* eA, const gsl_matrix_complex* A, gsl_matrix_complex* id_, gsl_matrix_complex* U_, gsl_matrix_complex* V_, gsl_matrix_complex* A2_, gsl_matrix_complex* A4_, gsl_matrix_complex* A6_, R d8, R eta_3){
  R hB[2]; struct holder B_={{1,1,1,hB}};
  struct holder *id=(struct holder*)id_, *U=(struct holder*)U_, *V=(struct holder*)V_, *A2=(struct holder*)A2_, *A4=(struct holder*)A4_, *A6=(struct holder*)A6_;
//@BODY file=src/MatrixExp.cpp sig=/void\s+matrix_exponential\s*\(/ rules=common,pade,expm_tail from=/double\s+d10\s*=/
}
int main(void){
  gsl_complex a={{nondet_R(),nondet_R()}}, a2=cmul(a,a), a4=cmul(a2,a2), a6=cmul(a2,a4);
  R dA[2]={a.dat[0],a.dat[1]}, dI[2]={1,0}, d2[2]={a2.dat[0],a2.dat[1]}, d4[2]={a4.dat[0],a4.dat[1]}, d6[2]={a6.dat[0],a6.dat[1]}, dU[2], dV[2], dE[2];
  gsl_matrix_complex A={1,1,1,dA}, I={1,1,1,dI}, A2={1,1,1,d2}, A4={1,1,1,d4}, A6={1,1,1,d6}, U={1,1,1,dU}, V={1,1,1,dV}, E={1,1,1,dE};
  R d8=nondet_R(), eta_3=nondet_R(); g_d10=nondet_R(); g_u=U0;   /* job parameter: the value of ceil(log2(eta_5/theta_13)), -3..2 */ g_r.dat[0]=nondet_R(); g_r.dat[1]=nondet_R();
  __CPROVER_assume(d8>=0 && eta_3>0 && g_d10>=0);
  R eta_4=sq_max(d8,g_d10), eta_5=sq_min(eta_3,eta_4);
  __CPROVER_assume(eta_5>0 && eta_5<=4.25*4);                      /* the bound of this job: at most 2 scaling steps before ell */
  tail(&E,&A,&I,&U,&V,&A2,&A4,&A6,d8,eta_3);
  int s0=g_u>0?g_u:0, s=s0+ELL;
  __CPROVER_assert(n_ell==1 && n_pade13==1 && n_solve==1, "C07: order-13 path consults ell once, assembles once, solves once");
  __CPROVER_assert(g_ellarg.dat[0]==a.dat[0]*sq_pow2i(-s0) && g_ellarg.dat[1]==a.dat[1]*sq_pow2i(-s0), "C07: ell is consulted for A*2^-s0");
  __CPROVER_assert(eta_5*sq_pow2i(-s0)<=4.25, "C07: after the first scaling eta_5*2^-s0 <= theta_13 = 4.25");
  __CPROVER_assert(g_B.dat[0]==a.dat[0]*sq_pow2i(-s) && g_B.dat[1]==a.dat[1]*sq_pow2i(-s), "C07: pade13 is handed A*2^-s with s = s0 + ell");
  gsl_complex p=g_r; for(int i=0;i<s;i++) p=cmul(p,p);
  __CPROVER_assert(dE[0]==p.dat[0] && dE[1]==p.dat[1], "C07: the result is r^(2^s) (s squarings of the Pade solve result)");
  return 0;
}
#endif
/* ------------------------------------------------------------------------------------------------------------------------------------
 * MODE 3: the diagonal test and fast path at the head of matrix_exponential (until the first thread-local holder), N x N, N = 2..6.
 * Contract: returns early  <=>  every off-diagonal entry is exactly zero; and then eA = diag(exp(A_ii)) (exp = gsl_complex_exp, trusted).  */
#if MODE==3
#ifndef N
#define N 3
#endif
static gsl_complex g_exp_arg[N], g_exp_val[N]; static int n_exp;
static gsl_complex gsl_complex_exp(gsl_complex z){ gsl_complex r={{nondet_R(),nondet_R()}}; if(n_exp<N){ g_exp_arg[n_exp]=z; g_exp_val[n_exp]=r; } n_exp++; return r; }
static void gsl_matrix_complex_set_all(gsl_matrix_complex* m, gsl_complex z){ for(size_t i=0;i<m->size1;i++) for(size_t j=0;j<m->size2;j++) gsl_matrix_complex_set(m,i,j,z); }
static int fell;
static void head(gsl_matrix_complex* eA, const gsl_matrix_complex* A){
//@BODY file=src/MatrixExp.cpp sig=/void\s+matrix_exponential\s*\(/ rules=common until=/SQUIDS_THREAD_LOCAL\s+gsl_matrix_complex_holder\s+id\s*;/
  fell=1;
}
int main(void){
  R dA[2*N*N], dE[2*N*N]; for(int i=0;i<2*N*N;i++){ dA[i]=nondet_R(); dE[i]=nondet_R(); }
  gsl_matrix_complex A={N,N,N,dA}, E={N,N,N,dE};
  int offdiag=0; for(int i=0;i<N;i++) for(int j=0;j<N;j++) if(i!=j && (dA[2*(i*N+j)]!=0 || dA[2*(i*N+j)+1]!=0)) offdiag=1;
  head(&E,&A);
  __CPROVER_assert(offdiag ? fell==1 : fell==0, "C07: the diagonal fast path is taken exactly for matrices whose off-diagonal entries are all zero");
  if(!fell){ int ok=(n_exp==N);
    for(int i=0;i<N;i++) for(int j=0;j<N;j++){
      if(i==j) ok = ok && g_exp_arg[i].dat[0]==dA[2*(i*N+i)] && g_exp_arg[i].dat[1]==dA[2*(i*N+i)+1] && dE[2*(i*N+i)]==g_exp_val[i].dat[0] && dE[2*(i*N+i)+1]==g_exp_val[i].dat[1];
      else ok = ok && dE[2*(i*N+j)]==0 && dE[2*(i*N+j)+1]==0; }
    __CPROVER_assert(ok, "C07: fast path returns diag(exp(A_ii))"); }
  return 0;
}
#endif
/* ------------------------------------------------------------------------------------------------------------------------------------
 * MODE 4: the argument guards of one_normest_core (until `unsigned int n = A->size1`) with the default arguments of its declaration
 * (NE_T, NE_ITMAX: extracted by the check).  Contract: for every order n in 2..6 the estimator accepts its arguments (no exception),
 * because matrix_exponential calls it for every non-diagonal input of those orders.                                                    */
#if MODE==4
static int sq_thrown, n_exact, fell; static R g_exact;
#define SQ_THROW(...) do{ sq_thrown=1; return 0; }while(0)
static R exact_1_norm(const gsl_matrix_complex* A){ n_exact++; return g_exact; }
static R guards(const gsl_matrix_complex* A, unsigned int t, unsigned int itmax){
//@BODY file=src/MatrixExp.cpp sig=/double\s+one_normest_core\s*\(/ rules=common until=/unsigned\s+int\s+n\s*=\s*A->size1/
  fell=1; return 0;
}
int main(void){
  size_t n; __CPROVER_assume(n>=2 && n<=6);
  gsl_matrix_complex A={n,n,n,0}; g_exact=nondet_R();
  R r=guards(&A,NE_T,NE_ITMAX);
  __CPROVER_assert(!sq_thrown, "C07: the 1-norm estimator accepts every matrix order n in 2..6 with its default block size");
  __CPROVER_assert(fell || (n_exact==1 && r==g_exact), "C07: when the block iteration is not entered the exact 1-norm of the argument is returned");
  __CPROVER_assert(!fell || (NE_T>=1 && NE_T<n && NE_ITMAX>=2), "C07: the block iteration is entered only with 1 <= t < n and itmax >= 2");
  return 0;
}
#endif
/* ------------------------------------------------------------------------------------------------------------------------------------
 * MODE 5: order selection of matrix_exponential (from the identity holder to `double d10 = ...`) on the 1x1 real model, where every norm
 * (estimated or exact) of A^k is |a|^k exactly, so every eta equals |a|.  Contract (Higham 2009, Alg. 5.1; thresholds theta_m of Table 2.3
 * supplied by the check from the published values, not from the code):
 *   order m in {3,5,7,9} is used  <=>  m is the first with |a| < theta_m and ell(A,m) == 0;  then pade<m> gets (A,id,A^2[,A^4[,A^6]]), is followed
 *   by exactly one solve_P_Q and the function returns;  otherwise the order-13 path is entered with A2,A4,A6 = a^2,a^4,a^6, d8 = eta_3 = |a|. */
#if MODE==5
static gsl_complex g_r; static R g_a; static int g_ell[14], n_pade, n_solve, g_order, fell, pre_ok=1, n_badpow;
static int ceqr(gsl_complex z, R x){ return z.dat[0]==x && z.dat[1]==0; }
static R sq_max(R a, R b){ return a>b?a:b; }  static R sq_min(R a, R b){ return a<b?a:b; }
static R absr(R x){ return x<0?-x:x; }
static R one_normest_matrix_power(const gsl_matrix_complex* Mx, unsigned p){ R m=absr(Mx->data[0]), r=1; for(unsigned i=0;i<p&&i<8;i++) r=r*m; return r; }
static R exact_1_norm(const gsl_matrix_complex* Mx){ return absr(Mx->data[0]); }
static R sq_pow(R b, R x){ R n=g_a;       /* a >= 0 in this mode: the k-th root of n^k is n; any other request is reported */
  if(x==1./4. && b==n*n*n*n) return n;  if(x==1./6. && b==n*n*n*n*n*n) return n;  if(x==1./8. && b==n*n*n*n*n*n*n*n) return n;
  n_badpow++; return nondet_R(); }
static int ell(const gsl_matrix_complex* A, unsigned m){ if(!ceqr(gsl_matrix_complex_get(A,0,0),g_a)) pre_ok=0; return (m<14)?g_ell[m]:0; }
static void gsl_matrix_complex_set_identity(gsl_matrix_complex* m){ m->data[0]=1; m->data[1]=0; }
static void chk(int order, const gsl_matrix_complex* A, const gsl_matrix_complex* id, const gsl_matrix_complex* A2, const gsl_matrix_complex* A4, const gsl_matrix_complex* A6){
  R a=g_a; n_pade++; g_order=order;
  if(!ceqr(gsl_matrix_complex_get(A,0,0),a) || !ceqr(gsl_matrix_complex_get(id,0,0),1.0) || !ceqr(gsl_matrix_complex_get(A2,0,0),a*a)) pre_ok=0;
  if(A4 && !ceqr(gsl_matrix_complex_get(A4,0,0),a*a*a*a)) pre_ok=0;
  if(A6 && !ceqr(gsl_matrix_complex_get(A6,0,0),a*a*a*a*a*a)) pre_ok=0; }
static void pade3(const gsl_matrix_complex* A, const gsl_matrix_complex* id, const gsl_matrix_complex* A2, gsl_matrix_complex* U, gsl_matrix_complex* V){ chk(3,A,id,A2,0,0); }
static void pade5(const gsl_matrix_complex* A, const gsl_matrix_complex* id, const gsl_matrix_complex* A2, const gsl_matrix_complex* A4, gsl_matrix_complex* U, gsl_matrix_complex* V){ chk(5,A,id,A2,A4,0); }
static void pade7(const gsl_matrix_complex* A, const gsl_matrix_complex* id, const gsl_matrix_complex* A2, const gsl_matrix_complex* A4, const gsl_matrix_complex* A6, gsl_matrix_complex* U, gsl_matrix_complex* V){ chk(7,A,id,A2,A4,A6); }
static void pade9(const gsl_matrix_complex* A, const gsl_matrix_complex* id, const gsl_matrix_complex* A2, const gsl_matrix_complex* A4, const gsl_matrix_complex* A6, gsl_matrix_complex* U, gsl_matrix_complex* V){ chk(9,A,id,A2,A4,A6); }
static void solve_P_Q(const gsl_matrix_complex* U, const gsl_matrix_complex* V, gsl_matrix_complex* eA){ if(n_pade!=n_solve+1) pre_ok=0; n_solve++; gsl_matrix_complex_set(eA,0,0,g_r); }
static R g_d8, g_eta3; static gsl_complex g_A2, g_A4, g_A6;
static void dispatch(gsl_matrix_complex* eA, const gsl_matrix_complex* A){
  R hid[2],hU[2],hV[2],h2[2],h4[2],h6[2]; struct holder id_={{1,1,1,hid}}, U_={{1,1,1,hU}}, V_={{1,1,1,hV}}, A2_={{1,1,1,h2}}, A4_={{1,1,1,h4}}, A6_={{1,1,1,h6}};
//@BODY file=src/MatrixExp.cpp sig=/void\s+matrix_exponential\s*\(/ rules=common,pade,expm_head braces=0 from=/SQUIDS_THREAD_LOCAL\s+gsl_matrix_complex_holder\s+id\s*;/ until=/double\s+d10\s*=/
  fell=1; g_d8=d8; g_eta3=eta_3; g_A2=gsl_matrix_complex_get(&A2->m,0,0); g_A4=gsl_matrix_complex_get(&A4->m,0,0); g_A6=gsl_matrix_complex_get(&A6->m,0,0);
}
int main(void){
  R a=nondet_R(); g_a=a; g_r.dat[0]=nondet_R(); g_r.dat[1]=nondet_R();
  __CPROVER_assume(a>=0);
  g_ell[3]=ELL3; g_ell[5]=ELL5; g_ell[7]=ELL7; g_ell[9]=ELL9;             /* job parameters (0 or 1 each: 16 jobs) */
  R dA[2]={a,0}, dE[2]={nondet_R(),nondet_R()}; gsl_matrix_complex A={1,1,1,dA}, E={1,1,1,dE};
  R n=absr(a);
  int want = (n<TH3 && g_ell[3]==0) ? 3 : (n<TH5 && g_ell[5]==0) ? 5 : (n<TH7 && g_ell[7]==0) ? 7 : (n<TH9 && g_ell[9]==0) ? 9 : 13;
  dispatch(&E,&A);
  __CPROVER_assert(n_badpow==0, "C07: while selecting the order only k-th roots (k=4,6,8) of norms of A^k are taken");
  __CPROVER_assert(pre_ok, "C07: every pade<m>/ell call gets A, the identity and the true powers A^2, A^4, A^6; each assembly is followed by one solve");
  __CPROVER_assert(want==13 ? (fell && n_pade==0 && n_solve==0) : (!fell && n_pade==1 && n_solve==1 && g_order==want && dE[0]==g_r.dat[0] && dE[1]==g_r.dat[1]),
                   "C07: order m is the first of 3,5,7,9 with eta < theta_m (published) and ell(A,m)==0, else the order-13 path");
  __CPROVER_assert(!fell || (ceqr(g_A2,a*a) && ceqr(g_A4,a*a*a*a) && ceqr(g_A6,a*a*a*a*a*a) && g_d8==n && g_eta3==n), "C07: the order-13 path starts from the true powers and d8 = eta_3 = ||A||");
  return 0;
}
#endif
/* ------------------------------------------------------------------------------------------------------------------------------------
 * MODE 6: solve_P_Q on the 1x1 complex model: forms P = V+U and Q = V-U with the extracted helpers and solves Q X = P column by column through GSL's LU
 * routines (assumed contract: LU_solve(LU(Q),p) returns x with Q x = p for invertible Q).  Contract: (V-U) * result = V+U.                             */
#if MODE==6
struct perm { size_t n; int resets; };
static void perm_reset(struct perm* p, size_t n){ p->n=n; p->resets++; }
typedef struct { R* data; size_t size; } gsl_vector_complex; typedef struct { gsl_vector_complex vector; } gsl_vector_complex_view;
static gsl_vector_complex_view gsl_matrix_complex_column(gsl_matrix_complex* m, size_t j){ gsl_vector_complex_view v; v.vector.data=m->data+2*j; v.vector.size=m->size1; return v; }
static void gsl_matrix_complex_memcpy(gsl_matrix_complex* d, const gsl_matrix_complex* s){ d->data[0]=s->data[0]; d->data[1]=s->data[1]; }
static gsl_complex gsl_complex_sub(gsl_complex a, gsl_complex b){ gsl_complex z={{a.dat[0]-b.dat[0],a.dat[1]-b.dat[1]}}; return z; }
static void gsl_matrix_complex_sub(gsl_matrix_complex* O, const gsl_matrix_complex* I, gsl_complex s){
//@BODY file=src/MatrixExp.cpp sig=/void\s+gsl_matrix_complex_sub\s*\(/ rules=common
}
static const gsl_matrix_complex* g_lu; static const struct perm* g_per; static int n_lu, n_solve;
static int gsl_linalg_complex_LU_decomp(gsl_matrix_complex* A, struct perm* p, int* signum){ g_lu=A; g_per=p; n_lu++; *signum=1; return 0; }   /* 1x1: A is its own LU factor */
static int gsl_linalg_complex_LU_solve(const gsl_matrix_complex* LU, const struct perm* p, const gsl_vector_complex* b, gsl_vector_complex* x){
  R qr=LU->data[0], qi=LU->data[1], xr=nondet_R(), xi=nondet_R();
  __CPROVER_assume(qr*xr-qi*xi==b->data[0] && qr*xi+qi*xr==b->data[1]);          /* Q x = b */
  x->data[0]=xr; x->data[1]=xi; if(LU!=g_lu || p!=g_per) n_solve+=100; n_solve++; return 0; }
static void solve_P_Q(gsl_matrix_complex* U, gsl_matrix_complex* V, gsl_matrix_complex* SPQ){
  R hP[2],hQ[2]; struct holder P_={{1,1,1,hP}}, Q_={{1,1,1,hQ}}; struct perm per_s={0,0};
//@BODY file=src/MatrixExp.cpp sig=/void\s+solve_P_Q\s*\(/ rules=common,pade,solvepq
}
int main(void){
  R dU[2]={nondet_R(),nondet_R()}, dV[2]={nondet_R(),nondet_R()}, dX[2]={nondet_R(),nondet_R()};
  gsl_matrix_complex U={1,1,1,dU}, V={1,1,1,dV}, X={1,1,1,dX};
  R ur=dU[0],ui=dU[1],vr=dV[0],vi=dV[1];
  __CPROVER_assume((vr-ur)*(vr-ur)+(vi-ui)*(vi-ui)>0);                                /* V-U invertible (guaranteed by the choice of the Pade order; trusted) */
  solve_P_Q(&U,&V,&X);
  __CPROVER_assert(n_lu==1 && n_solve==1, "C07: one LU factorisation of Q, one solve per column with that factorisation");
  __CPROVER_assert(dU[0]==ur && dU[1]==ui && dV[0]==vr && dV[1]==vi, "C07: solve_P_Q does not modify U and V");
  R qr=vr-ur, qi=vi-ui; __CPROVER_assert(qr*dX[0]-qi*dX[1]==vr+ur && qr*dX[1]+qi*dX[0]==vi+ui, "C07: the result X satisfies (V-U) X = V+U");
  return 0;
}
#endif
/* ------------------------------------------------------------------------------------------------------------------------------------
 * MODE 7: ell(A,m) (Al-Mohy & Higham 2009, eq. (3.10) / SciPy _ell): p = 2m+1, est = ||  |A|^p  ||_1 (estimated), alpha = est / (||A||_1 * c) with
 * 1/|c_{2m+1}| = C(2p,p) (2p+1)!, result = max( ceil( log2(alpha/u) / (2m) ), 0 ) with u = 2^-53, and 0 when est == 0.  Callees logged: gsl_sf_choose, gsl_sf_fact,
 * pow, one_normest_matrix_power (argument: entry-wise absolute value of A, N x N, N=2), exact_1_norm, log2 (of one argument), ceil-to-int.  MM = m (job parameter). */
#if MODE==7
#define N 2
static R g_ch, g_fa, g_p53, g_est, g_nrm, g_l2arg, g_l2val, g_ceilarg; static int g_ceilval, n_ch, n_fa, n_pw, n_est, n_nrm, n_l2, n_ceil, abs_ok, ch_ok, fa_ok, pw_ok, est_ok, nrm_ok;
static const gsl_matrix_complex* g_A; static R g_absin[2*N*N];
static R gsl_sf_choose(unsigned n, unsigned k){ n_ch++; ch_ok = (n==2*(2*MM+1) && k==2*MM+1); return g_ch; }
static R gsl_sf_fact(unsigned n){ n_fa++; fa_ok = (n==2*(2*MM+1)+1); return g_fa; }
static R sq_pow(R b, R x){ n_pw++; pw_ok = (b==2.0 && x==-53.0); return g_p53; }
static R gsl_complex_abs(gsl_complex z){ R r=nondet_R(); __CPROVER_assume(r>=0 && r*r==z.dat[0]*z.dat[0]+z.dat[1]*z.dat[1]); return r; }
static void gsl_matrix_complex_memcpy(gsl_matrix_complex* d, const gsl_matrix_complex* s){ for(int q=0;q<2*N*N;q++) d->data[q]=s->data[q]; }
static R one_normest_matrix_power(const gsl_matrix_complex* Mx, unsigned p){ n_est++; est_ok = (p==2*MM+1); abs_ok=1;
  for(int i=0;i<N;i++) for(int j=0;j<N;j++){ gsl_complex z=gsl_matrix_complex_get(Mx,i,j); R ar=g_absin[2*(i*N+j)], ai=g_absin[2*(i*N+j)+1];
    abs_ok = abs_ok && z.dat[1]==0 && z.dat[0]>=0 && z.dat[0]*z.dat[0]==ar*ar+ai*ai; }
  return g_est; }
static R exact_1_norm(const gsl_matrix_complex* Mx){ n_nrm++; nrm_ok = (Mx==g_A); return g_nrm; }
static R sq_log2(R x){ n_l2++; g_l2arg=x; return g_l2val; }
static int sq_iceil(R x){ n_ceil++; g_ceilarg=x; return g_ceilval; }
static int sq_imax(int a,int b){ return a>b?a:b; }
static int ell(const gsl_matrix_complex* A, unsigned int m){
  R habs[2*N*N]; struct holder absA_={{N,N,N,habs}};
//@BODY file=src/MatrixExp.cpp sig=/\bint\s+ell\s*\(/ rules=common,pade,ellrules
}
int main(void){
  R dA[2*N*N]; for(int q=0;q<2*N*N;q++){ dA[q]=nondet_R(); g_absin[q]=dA[q]; } gsl_matrix_complex A={N,N,N,dA}; g_A=&A;
  g_ch=nondet_R(); g_fa=nondet_R(); g_p53=nondet_R(); g_est=nondet_R(); g_nrm=nondet_R(); g_l2val=nondet_R(); g_ceilval=CEILV;
  __CPROVER_assume(g_ch>0 && g_fa>0 && g_p53>0 && g_est>=0 && g_nrm>0);
  int r=ell(&A,MM);
  __CPROVER_assert(n_est==1 && est_ok && abs_ok, "C07: ell estimates the 1-norm of |A|^(2m+1), |A| the entry-wise absolute value of A");
  if(g_est==0){ __CPROVER_assert(r==0, "C07: ell is 0 when the estimate vanishes"); }
  else {
    __CPROVER_assert(n_ch==1 && ch_ok && n_fa==1 && fa_ok && n_pw==1 && pw_ok && n_nrm==1 && nrm_ok, "C07: 1/|c_{2m+1}| = C(2p,p)*(2p+1)! with p=2m+1; unit roundoff 2^-53; exact 1-norm of A itself");
    __CPROVER_assert(n_l2==1 && g_l2arg*(g_nrm*(g_ch*g_fa))*g_p53==g_est, "C07: log2 is taken of alpha/u, alpha = est/(||A||_1 * C(2p,p)(2p+1)!)");
    __CPROVER_assert(n_ceil==1 && g_ceilarg*(2*MM)==g_l2val && r==(CEILV>0?CEILV:0), "C07: ell = max(ceil(log2(alpha/u)/(2m)), 0)");
  }
  return 0;
}
#endif
