/* C06: RotateToB1 / RotateToB0 are the documented products of plane rotations, and are mutually inverse as sequences.
 * Callee contract: Rotate(i,j,theta,delta) (its own contract, R^dagger A R, is C06.L2.rotate.*) is replaced by a ghost call log.
 * RotateToB1: for j = d-1..1, for i = j-1..0: Rotate(i,j,+theta_ij,delta_ij);  RotateToB0: the same list reversed with negated angles, so
 * that (spec lemma: R(i,j,-theta,delta) = R(i,j,theta,delta)^dagger) RotateToB0 after RotateToB1 is the identity map.  D is a job parameter. */
typedef double R; R nondet_R(void);
struct SU_vector { unsigned dim; int version; };
struct Const { R th[D][D], de[D][D]; };
#define LOGN (D*D)
static unsigned li[LOGN], lj[LOGN]; static R lth[LOGN], lde[LOGN]; static int lver[LOGN], nlog;
static R Const_GetMixingAngle(const struct Const* p, unsigned i, unsigned j){ __CPROVER_assert(i<j && j<D, "C06: mixing angle queried for a pair i<j<dim"); return p->th[i<D?i:0][j<D?j:0]; }
static R Const_GetPhase(const struct Const* p, unsigned i, unsigned j){ __CPROVER_assert(i<j && j<D, "C06: phase queried for a pair i<j<dim"); return p->de[i<D?i:0][j<D?j:0]; }
/* `*this = Rotate(i,j,th,de)`: the vector is replaced by the rotated one (version counter: each rotation acts on the result of the previous one) */
static void su_assign_rotate(struct SU_vector* self, unsigned i, unsigned j, R th, R de){
  if(nlog<LOGN){ li[nlog]=i; lj[nlog]=j; lth[nlog]=th; lde[nlog]=de; lver[nlog]=self->version; } nlog++; self->version++; }
static void RotateToB0(struct SU_vector* self, const struct Const* param){
//@BODY file=src/SUNalg.cpp sig=/void\s+SU_vector::RotateToB0\s*\(/ rules=common,rotorder
}
static void RotateToB1(struct SU_vector* self, const struct Const* param){
//@BODY file=src/SUNalg.cpp sig=/void\s+SU_vector::RotateToB1\s*\(/ rules=common,rotorder
}
int main(void){
  struct Const p; for(int i=0;i<D;i++) for(int j=0;j<D;j++){ p.th[i][j]=nondet_R(); p.de[i][j]=nondet_R(); }
  struct SU_vector v={D,0};
  RotateToB1(&v,&p);
  int n1=nlog, k=0, ok=1;
  for(int j=D-1;j>0;j--) for(int i=j-1;i>=0;i--){ ok = ok && k<LOGN && li[k]==(unsigned)i && lj[k]==(unsigned)j && lth[k]==p.th[i][j] && lde[k]==p.de[i][j] && lver[k]==k; k++; }
  __CPROVER_assert(ok && n1==k && n1==D*(D-1)/2, "C06: RotateToB1 applies Rotate(i,j,theta_ij,delta_ij) for j=d-1..1, i=j-1..0, each on the previous result");
  unsigned i1[LOGN], j1[LOGN]; R t1[LOGN], d1[LOGN]; for(int q=0;q<LOGN;q++){ i1[q]=li[q]; j1[q]=lj[q]; t1[q]=lth[q]; d1[q]=lde[q]; }
  nlog=0; v.version=0;
  RotateToB0(&v,&p);
  ok=1; for(int q=0;q<n1 && q<LOGN;q++){ int r=n1-1-q; ok = ok && li[q]==i1[r] && lj[q]==j1[r] && lth[q]==-t1[r] && lde[q]==d1[r] && lver[q]==q; }
  __CPROVER_assert(ok && nlog==n1, "C06: RotateToB0 applies the rotations of RotateToB1 in reverse order with negated angles (the inverse sequence)");
  return 0;
}
