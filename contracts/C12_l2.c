/* C12 (partial; level other).  What contracts can decide about SU_vector::GetEigenSystem:
 *  MODE 1  dispatch: dim 3 -> closed form (EigenSystemSU3.txt), every other dim -> gsl_eigen_hermv on GetGSLMatrix(); sorted ascending iff `order`;
 *          the two result objects are allocated with the vector's dimension.  (GSL's solver/sort contracts are assumed; GetGSLMatrix is C01.)
 *  MODE 2  dim-3 closed form, scalar part (until the first std::complex temporary): every divisor that is a variable is non-zero, for all inputs.
 *  MODE 3  dim-3 closed form, eigenvector part: the complex temporary a5 (initialiser extracted) by which A5_SITES quotients divide is non-zero.
 * NOT decided: that the closed form's numbers are eigenpairs (cubic roots through cbrt/arg/cos of a third of an angle: outside SMT reach), unitarity,
 * the remaining complex denominators (they contain those roots), GSL's eigensolver. */
typedef double R;
R nondet_R(void); int nondet_int(void); unsigned nondet_unsigned(void);
#ifndef MODE
#define MODE 1
#endif
#if MODE==1
typedef int bool_t;
typedef struct { int id; } gsl_vector; typedef struct { int id; } gsl_matrix_complex; typedef struct { int id; unsigned n; int live; } gsl_eigen_hermv_workspace;
struct SU_vector { unsigned dim; };
#define GSL_EIGEN_SORT_VAL_ASC 7
#define LOGN 12
static int ev[LOGN], ea[LOGN], eb[LOGN], ec[LOGN], nev;
static void lg(int k,int a,int b,int c){ if(nev<LOGN){ ev[nev]=k; ea[nev]=a; eb[nev]=b; ec[nev]=c; } nev++; }
static gsl_vector VEC={1}; static gsl_matrix_complex EV={2}, GM={3}; static gsl_eigen_hermv_workspace WS={4,0,0};
static int ws_live;
static gsl_vector* gsl_vector_alloc(unsigned n){ lg(1,n,0,0); return &VEC; }
static gsl_matrix_complex* gsl_matrix_complex_alloc(unsigned a, unsigned b){ lg(2,a,b,0); return &EV; }
static gsl_matrix_complex* su_GetGSLMatrix(const struct SU_vector* s){ lg(3,0,0,0); return &GM; }
static gsl_eigen_hermv_workspace* gsl_eigen_hermv_alloc(unsigned n){ lg(4,n,0,0); WS.n=n; WS.live=1; ws_live++; return &WS; }
static int gsl_eigen_hermv(gsl_matrix_complex* m, gsl_vector* e, gsl_matrix_complex* v, gsl_eigen_hermv_workspace* w){ lg(5,m->id,e->id*10+v->id,(w->live?(int)w->n:-1)); return 0; }
static void gsl_eigen_hermv_free(gsl_eigen_hermv_workspace* w){ lg(6,w->id,0,0); w->live=0; ws_live--; }
static int gsl_eigen_hermv_sort(gsl_vector* e, gsl_matrix_complex* v, int how){ lg(7,e->id,v->id,how); return 0; }
static void gsl_matrix_complex_normalize(gsl_matrix_complex* v){ lg(9,v->id,0,0); }
/* the closed form: one logged call; TXT_NORMALIZES (set by the check from the text of EigenSystemSU3.txt, MODE 4) tells whether the text ends by normalising the columns */
static void sq_closed_form_su3(const struct SU_vector* s, gsl_vector* e, gsl_matrix_complex* v){ lg(8,e->id,v->id,0); if(TXT_NORMALIZES) gsl_matrix_complex_normalize(v); }
static gsl_vector* out_e; static gsl_matrix_complex* out_v;
static void GetEigenSystem(const struct SU_vector* self, bool_t order){
//@BODY file=src/SUNalg.cpp sig=/SU_vector::GetEigenSystem\s*\(\s*bool\s+order\s*\)\s*const/ rules=common,eigsys braces=0 until=/return\s+std::make_pair/
  out_e=eigenvalues; out_v=eigenvectors;
}
/* one call against the specification; GSL returns unit columns, so a normalisation is required for the closed form only and tolerated elsewhere */
static int conforms(unsigned d, int order){
  int k=0, ok=1;
  ok = ok && ev[0]==1 && ea[0]==(int)d && ev[1]==2 && ea[1]==(int)d && eb[1]==(int)d; k=2;
  if(d==3){ ok = ok && ev[k]==8 && ea[k]==1 && eb[k]==2; k++; ok = ok && ev[k]==9 && ea[k]==2; k++; }
  else { ok = ok && ev[k]==3 && ev[k+1]==4 && ea[k+1]==(int)d && ev[k+2]==5 && ea[k+2]==3 && eb[k+2]==12 && ec[k+2]==(int)d && ev[k+3]==6 && ea[k+3]==4; k+=4;
         if(k<LOGN && ev[k]==9 && ea[k]==2) k++; }
  if(order){ ok = ok && ev[k]==7 && ea[k]==1 && eb[k]==2 && ec[k]==GSL_EIGEN_SORT_VAL_ASC; k++; if(k<LOGN && k<nev && ev[k]==9 && ea[k]==2) k++; }
  return ok && nev==k && ws_live==0;
}
int main(void){
  /* two consecutive calls on the same thread (function-local statics persist): both must conform */
  struct SU_vector s1, s2; s1.dim=nondet_unsigned(); s2.dim=nondet_unsigned(); __CPROVER_assume(s1.dim>=2 && s1.dim<=6 && s2.dim>=2 && s2.dim<=6);
  int o1=nondet_int(), o2=nondet_int(); __CPROVER_assume((o1==0||o1==1) && (o2==0||o2==1));
  GetEigenSystem(&s1,o1);
  __CPROVER_assert(conforms(s1.dim,o1), "C12: dim 3 -> closed form with unit columns, other dims -> gsl_eigen_hermv on GetGSLMatrix() with a live workspace of that dimension (freed); sorted ascending iff order");
  __CPROVER_assert(out_e==&VEC && out_v==&EV, "C12: the returned objects are the ones that were filled");
  nev=0; for(int i=0;i<LOGN;i++){ ev[i]=0; ea[i]=0; eb[i]=0; ec[i]=0; }
  GetEigenSystem(&s2,o2);
  __CPROVER_assert(conforms(s2.dim,o2), "C12: the same on a second call on the same thread, whatever the first call was");
  return 0;
}
#endif
/* MODE 4: does the text of the closed form end by normalising the eigenvector columns?  (everything up to the last component store is cut) */
#if MODE==4
typedef struct { int id; } gsl_matrix_complex; static int n_norm;
static void gsl_matrix_complex_normalize(gsl_matrix_complex* v){ if(v->id==2) n_norm++; }
int main(void){ gsl_matrix_complex EVm={2}; gsl_matrix_complex* eigenvectors=&EVm;
//@KERNEL file=include/SQuIDS/SU_inc/EigenSystemSU3.txt
//@SUB /[\s\S]*gsl_matrix_complex_set\s*\(\s*eigenvectors\s*,\s*2\s*,\s*2\s*,[^;]*;// min=1
  __CPROVER_assert(n_norm==TXT_NORMALIZES, "C12: bookkeeping: TXT_NORMALIZES is the number of column normalisations at the end of the closed form");
  return 0; }
#endif
#if MODE==2 || MODE==3
#define SQ(x) ((x)*(x))
static R CB2;                                   /* cbrt(2): the positive real with CB2^3 = 2 */
static R sq_nz(R x){ __CPROVER_assert(x!=0, "C12: a divisor of the dim-3 closed form is non-zero (otherwise the returned numbers are not finite)"); return x; }
static R sq_root(R x){ R r=nondet_R(); __CPROVER_assume((r==0)==(x==0)); __CPROVER_assume((r>0)==(x>0)); return r; }   /* odd or even root: zero only at zero */
static R sq_pow(R b, R x){ if(x==2) return b*b; if(x==3) return b*b*b; return sq_root(b); }
static R sq_cbrt(R x){ if(x==2.) return CB2; return sq_root(x); }
static R sq_sqrt(R x){ R r=nondet_R(); __CPROVER_assume(r>=0); return r; }
static R sq_arg(R re, R im){ return nondet_R(); }
static R sq_cos(R x){ return nondet_R(); }  static R sq_sin(R x){ return nondet_R(); }
typedef struct { int id; } gsl_vector;
static R L[3]; static void gsl_vector_set(gsl_vector* v, int i, R x){ if(i>=0&&i<3) L[i]=x; }
#endif
#if MODE==2
static void closed_form_scalar(const R* components, gsl_vector* eigenvalues){
//@KERNEL file=include/SQuIDS/SU_inc/EigenSystemSU3.txt rules=eig3
//@SUB /std::complex<double>\s+a1\s*\{[\s\S]*$// min=1
}
int main(void){
  R c[9]; for(int i=0;i<9;i++) c[i]=nondet_R(); CB2=nondet_R(); __CPROVER_assume(CB2>0 && CB2*CB2*CB2==2);
  gsl_vector e={0}; closed_form_scalar(c,&e); return 0; }
#endif
#if MODE==3
int main(void){
  R components[9]; for(int i=0;i<9;i++) components[i]=nondet_R();
  R a5_re=(A5_RE), a5_im=(A5_IM);
  if(A5_SITES>0) __CPROVER_assert(!(a5_re==0 && a5_im==0), "C12: the complex temporary a5, by which the eigenvector quotients divide, is non-zero (otherwise the returned numbers are not finite)");
  return 0; }
#endif
