/* C19 (and C15/C18): detail::cache<T,N> (include/SQuIDS/detail/Cache.h), both configurations, extracted to C.
 *   -DSQUIDS_THREAD_LOCAL=...   selects the thread-local branch of the #ifdef's inside the bodies (exactly as the C++ build does);
 *   without it the shared (std::atomic<list_head>) branch is compiled; load/compare_exchange_weak -> sq_load / sq_cas.
 *   CAP = N (template parameter, compile-time constant: 1..4 as in the property, and 32 as instantiated by SU_vector).
 * T = SU_vector::mem_cache_entry {double* storage; unsigned char offset;}.
 * Contracts (harness assume/assert from an ARBITRARY well-formed state => induction over all sequential histories):
 *   view = the data list as a stack of payloads, |view|<=N;  insert: full => false, unchanged; else true and view' = v.view;
 *   get: empty => T(); else returns head and pops;  both preserve wf (free and data lists acyclic, disjoint, covering all N records).
 * OWNERSHIP (shared configuration): a record pushed onto a list no longer belongs to this thread; another thread may take and
 *   overwrite it at once => its payload is havocked at the push (rely/guarantee by ownership, DESIGN 8 C19). */
#include "sq_prelude.h"
#include <stdlib.h>
#ifndef CAP
#define CAP 2
#endif
typedef struct { double* storage; unsigned char offset; } T;      /* SU_vector::mem_cache_entry */
static T T_empty(void){ T t; t.storage=NULL; t.offset=0; return t; }   /* mem_cache_entry():storage(nullptr){} (offset indeterminate: 0 here) */
struct record { struct record* next; T data; };
struct list_head {
#ifndef SQUIDS_THREAD_LOCAL
  uint32_t counter;
#endif
  uint32_t index;
};
struct cache { struct record entries[CAP]; struct list_head free_list, data_list; };
#define max_buffer_size CAP
#undef SQ_RET
#define SQ_RET

#ifndef SQUIDS_THREAD_LOCAL
/* std::atomic<list_head>: sequential contracts of load / store / compare_exchange_weak (may fail spuriously; on failure `expected` is refreshed) */
int g_cas_calls, g_cas_ok, g_spurious=2; uint32_t g_cas_seen_counter, g_cas_new_counter;   /* at most 2 spurious failures per operation are explored (progress of compare_exchange_weak is the platform's) */
static struct list_head sq_load(struct list_head* l){ return *l; }
static void sq_store(struct list_head* l, struct list_head v){ *l=v; }
#ifdef INTERFERENCE
/* interference model (shared configuration): between this thread's last look at the list and its compare-and-swap other threads may have run
 * complete operations.  Each of their successful CASes bumps the version, so the head then carries a different counter (wrap-around after 2^32
 * foreign operations inside one retry window is excluded); the links of every record this thread does not own are then arbitrary (in range). */
struct cache; static struct cache* g_self; static int g_cas_kind, g_interf=2; static uint32_t g_owned=0xffffffffu;
static void sq_interfere(struct list_head* l, const struct list_head* expected);
static uint32_t sq_succ(uint32_t i);
#endif
static _Bool sq_cas(struct list_head* l, struct list_head* expected, struct list_head desired){
  g_cas_calls++;
#ifdef INTERFERENCE
  if(g_interf>0 && nondet_bool()){ g_interf--; sq_interfere(l,expected); }
#endif
  _Bool same = l->counter==expected->counter && l->index==expected->index;      /* the WHOLE (counter,index) pair is compared */
  _Bool fail_spuriously = (g_spurious>0) && nondet_bool(); if(fail_spuriously) g_spurious--;
  if(same && !fail_spuriously){
#ifdef INTERFERENCE
    /* local linearisation obligations, evaluated in the state the successful CAS acts on */
    if(g_cas_kind==1) __CPROVER_assert(expected->index<CAP && desired.index==sq_succ(expected->index), "pop: the head installed is the successor of the head compared, as linked when the CAS succeeds");
    if(g_cas_kind==2) __CPROVER_assert(desired.index==g_owned && sq_succ(g_owned)==expected->index, "push: the pushed record becomes the head and links to the head compared");
#endif
    g_cas_seen_counter=expected->counter; g_cas_new_counter=desired.counter; g_cas_ok++; *l=desired; return 1; }
  *expected=*l; return 0;
}
#endif
#ifdef OWNERSHIP
#define SQ_RELEASE(node) do{ (node)->data.storage=(double*)nondet_size_t(); (node)->data.offset=nondet_uchar(); }while(0)
#else
#define SQ_RELEASE(node) do{}while(0)
#endif

struct record* cache_pop(struct cache* self, struct list_head* list){
//@BODY file=include/SQuIDS/detail/Cache.h sig=/record\*\s+pop\s*\(\s*ListType&\s*list\s*\)/ rules=common,cache
}
void cache_push(struct cache* self, struct list_head* list, struct record* node){
//@BODY file=include/SQuIDS/detail/Cache.h sig=/void\s+push\s*\(\s*ListType&\s*list\s*,\s*record\*\s*node\s*\)/ rules=common,cache
  SQ_RELEASE(node);
}
void cache_ctor(struct cache* self){
//@BODY file=include/SQuIDS/detail/Cache.h sig=/\bcache\s*\(\s*\)/ rules=common,cache
}
#undef SQ_RET
#define SQ_RET 0
_Bool cache_insert(struct cache* self, T value){
//@BODY file=include/SQuIDS/detail/Cache.h sig=/bool\s+insert\s*\(\s*T\s+value\s*\)/ rules=common,cache
}
#undef SQ_RET
#define SQ_RET T_empty()
T cache_get(struct cache* self){
//@BODY file=include/SQuIDS/detail/Cache.h sig=/\bT\s+get\s*\(\s*\)/ rules=common,cache
}

#if defined(INTERFERENCE) && !defined(SQUIDS_THREAD_LOCAL)
static uint32_t sq_succ(uint32_t i){ const struct record* nx=g_self->entries[i<CAP?i:0].next; return nx?(uint32_t)(nx-g_self->entries):CAP; }
static void sq_interfere(struct list_head* l, const struct list_head* expected){
  uint32_t c=nondet_unsigned(), ix=nondet_unsigned(); __CPROVER_assume(c!=expected->counter && ix<=CAP); l->counter=c; l->index=ix;
  for(uint32_t i=0;i<CAP;i++) if(i!=g_owned){ uint32_t j=nondet_unsigned(); __CPROVER_assume(j<=CAP); g_self->entries[i].next=(j==CAP)?NULL:&g_self->entries[j]; }
}
#endif
/* ---- specification: abstract view and well-formedness (explicit walks of at most CAP steps) ---------------------------- */
static int walk(const struct cache* c, uint32_t head, int* idx){          /* returns length, -1 if malformed */
  int n=0; uint32_t cur=head;
  for(int step=0; step<=CAP; step++){
    if(cur==CAP) return n;
    if(cur>CAP || n>=CAP) return -1;
    idx[n++]=(int)cur;
    const struct record* nx=c->entries[cur].next;
    if(nx==NULL) cur=CAP;
    else { if(!__CPROVER_same_object(nx,c->entries)) return -1; cur=(uint32_t)(nx-c->entries); }
  }
  return -1;
}
static int wf(const struct cache* c, int* fi, int* nf, int* di, int* nd){
  *nf=walk(c,c->free_list.index,fi); *nd=walk(c,c->data_list.index,di);
  if(*nf<0||*nd<0||*nf+*nd!=CAP) return 0;
  int seen[CAP]; for(int i=0;i<CAP;i++) seen[i]=0;
  for(int i=0;i<*nf;i++){ if(seen[fi[i]]) return 0; seen[fi[i]]=1; }
  for(int i=0;i<*nd;i++){ if(seen[di[i]]) return 0; seen[di[i]]=1; }
  return 1;
}
static void arbitrary_state(struct cache* c){
  for(int i=0;i<CAP;i++){ uint32_t j=nondet_unsigned(); __CPROVER_assume(j<=CAP); c->entries[i].next=(j==CAP)?NULL:&c->entries[j];
    c->entries[i].data.storage=(double*)nondet_size_t(); c->entries[i].data.offset=nondet_uchar(); }
  c->free_list.index=nondet_unsigned(); c->data_list.index=nondet_unsigned();
#ifndef SQUIDS_THREAD_LOCAL
  c->free_list.counter=nondet_unsigned(); c->data_list.counter=nondet_unsigned();
#endif
}

int main(void){
  struct cache c; int fi[CAP],di[CAP],nf,nd, fi2[CAP],di2[CAP],nf2,nd2;
#if OP==0      /* constructor: all records free, no data */
  cache_ctor(&c);
  __CPROVER_assert(wf(&c,fi,&nf,di,&nd) && nd==0 && nf==CAP, "constructed cache is well formed and empty");
#elif OP==3 || OP==4   /* pop / push of the shared configuration under interference: local linearisation obligations only (asserted inside sq_cas) */
#if defined(INTERFERENCE) && !defined(SQUIDS_THREAD_LOCAL)
  arbitrary_state(&c); __CPROVER_assume(c.data_list.index<=CAP && c.free_list.index<=CAP);
  g_self=&c; g_cas_calls=0; g_cas_ok=0;
#if OP==3
  g_cas_kind=1; struct record* r=cache_pop(&c,&c.data_list);
  __CPROVER_assert(r==NULL || (r>=c.entries && r<c.entries+CAP), "pop returns NULL or a record of this cache");
#else
  g_cas_kind=2; g_owned=nondet_unsigned(); __CPROVER_assume(g_owned<CAP);
  cache_push(&c,&c.data_list,&c.entries[g_owned]);
  __CPROVER_assert(g_cas_ok==1, "push completes with exactly one successful CAS");
#endif
  __CPROVER_assert(g_cas_ok==0 || g_cas_new_counter==g_cas_seen_counter+1, "successful CAS installs counter == observed counter + 1");
#endif
#else
  arbitrary_state(&c);
  __CPROVER_assume(wf(&c,fi,&nf,di,&nd));
  T view[CAP]; for(int i=0;i<CAP;i++) view[i]=c.entries[(i<nd)?di[i]:0].data;      /* payloads of the data list, head first */
#ifndef SQUIDS_THREAD_LOCAL
  uint32_t fc0=c.free_list.counter, dc0=c.data_list.counter; g_cas_calls=0; g_cas_ok=0;
#endif
#if OP==1      /* insert */
  T v; v.storage=(double*)nondet_size_t(); v.offset=nondet_uchar();
  _Bool r=cache_insert(&c,v);
  __CPROVER_assert(wf(&c,fi2,&nf2,di2,&nd2), "insert preserves well-formedness");
  __CPROVER_assert(r==(nd<CAP), "insert fails iff the cache holds its capacity");
  __CPROVER_assert(r || nd2==nd, "failed insert: size unchanged");
  __CPROVER_assert(!r || nd2==nd+1, "successful insert: one more entry");
#ifndef OWNERSHIP
  __CPROVER_assert(!r || (c.entries[di2[0]].data.storage==v.storage && c.entries[di2[0]].data.offset==v.offset), "inserted value is the new head");
  for(int i=0;i<CAP;i++) if(i<nd) __CPROVER_assert(c.entries[di2[i+(r?1:0)]].data.storage==view[i].storage && c.entries[di2[i+(r?1:0)]].data.offset==view[i].offset, "older entries unchanged and in order (LIFO)");
#endif
#else          /* get */
  T g=cache_get(&c);
  __CPROVER_assert(wf(&c,fi2,&nf2,di2,&nd2), "get preserves well-formedness");
  __CPROVER_assert(nd>0 || (g.storage==NULL && nd2==0), "fetch from an empty cache yields T() and changes nothing");
  __CPROVER_assert(nd==0 || (g.storage==view[0].storage && g.offset==view[0].offset && nd2==nd-1), "fetch returns the most recently inserted entry and removes it");
#ifndef OWNERSHIP
  for(int i=0;i<CAP;i++) if(i+1<nd) __CPROVER_assert(c.entries[di2[i]].data.storage==view[i+1].storage && c.entries[di2[i]].data.offset==view[i+1].offset, "remaining entries unchanged and in order");
#endif
#endif
#ifndef SQUIDS_THREAD_LOCAL
  /* local obligations of the compare-and-swap loops: a successful CAS bumps the version it observed by exactly one */
  __CPROVER_assert(g_cas_ok==0 || g_cas_new_counter==g_cas_seen_counter+1, "successful CAS installs counter == observed counter + 1");
#endif
#endif
  __CPROVER_assert(0,"REACH end of harness");
  return 0;
}
