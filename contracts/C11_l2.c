/* C11 Layer 2: averaging PrepareEvolve overloads and the ramp filters (SUNalg.h + SU_inc/*Avg*.txt, LowPassFilterSU*, AvgWithRampSU*,
 * ApplyLowPassRamp.txt).  Slot p of the tables belongs to the level pair (j,k)=pair_of(p), j<k (row-major order: (0,1),(0,2),..,(0,d-1),(1,2),..), omega_p=h_j-h_k.
 * Parameters: D, WHAT: 1 pair table (plain), 2 Avg, 3 LowPassFilter, 4 AvgRampFilter, 5 AvgRange formula (omega!=0),
 * 6 AvgRange at coincident levels, 7 ramp wider than cutoff is rejected before any write. */
#include "l2_prelude.h"
#include "gellmann.h"
#include "SU_inc_l2/dimension.h"
#define N (D*D)
#define NP (D*(D-1)/2)
int sq_thrown;
#define SQ_THROW(...) do{ sq_thrown=1; return SQ_RET; }while(0)
#define SQ_RET
#define true 1
#define false 0
struct SU_vector { unsigned dim; unsigned size; R* components; };
static size_t GetEvolveBufferSize(const struct SU_vector* self){
//@BODY file=include/SQuIDS/SUNalg.h sig=/size_t\s+GetEvolveBufferSize\s*\(/ rules=common
//@SUB /return\s*\(\s*dim\s*\*\s*\(\s*dim\s*-\s*1\s*\)\s*\)\s*;/return(self->dim*(self->dim-1));/ min=1
}
static void PrepareEvolve(const struct SU_vector* self, unsigned dim, R* buffer, R t){
//@BODY file=include/SQuIDS/SUNalg.h sig=/void\s+PrepareEvolve\s*\(\s*double\s*\*\s*buffer\s*,\s*double\s+t\s*\)/ rules=common
//@SUB /auto&\s*suv1\s*=\s*\*this\s*;/const struct SU_vector suv1=*self;/ min=1
//@SUB /GetEvolveBufferSize\(\)/GetEvolveBufferSize(self)/ min=1
//@SUB /double\s*\*\s*(CX|SX)\s*=/R* \1=/ min=2
//@SUB /double\s+term\s*;/R term;/ min=1
//@SUB /#include\s+"SU_inc\/([A-Za-z0-9_]+\.txt)"/#include "SU_inc_l2\/\1"/ min=1
}
static void PrepareEvolveAvg(const struct SU_vector* self, unsigned dim, R* buffer, R t, R scale, _Bool* avr){
//@BODY file=include/SQuIDS/SUNalg.h sig=/void\s+PrepareEvolve\s*\(\s*double\s*\*\s*buffer\s*,\s*double\s+t\s*,\s*double\s+scale/ rules=common
//@SUB /auto&\s*suv1\s*=\s*\*this\s*;/const struct SU_vector suv1=*self;/ min=1
//@SUB /GetEvolveBufferSize\(\)/GetEvolveBufferSize(self)/ min=1
//@SUB /double\s*\*\s*(CX|SX)\s*=/R* \1=/ min=2
//@SUB /double\s+term\s*;/R term;/ min=1
//@SUB /#include\s+"SU_inc\/([A-Za-z0-9_]+\.txt)"/#include "SU_inc_l2\/\1"/ min=1
}
static void PrepareEvolveRange(const struct SU_vector* self, unsigned dim, R* buffer, R t_start, R t_end){
//@BODY file=include/SQuIDS/SUNalg.h sig=/void\s+PrepareEvolve\s*\(\s*double\s*\*\s*buffer\s*,\s*double\s+t_start/ rules=common
//@SUB /auto&\s*suv1\s*=\s*\*this\s*;/const struct SU_vector suv1=*self;/ min=1
//@SUB /GetEvolveBufferSize\(\)/GetEvolveBufferSize(self)/ min=1
//@SUB /double\s*\*\s*(CX|SX)\s*=/R* \1=/ min=2
//@SUB /double\s+alpha\s*;/R alpha;/ min=1
//@SUB /double\s+range\s*=/R range=/ min=1
//@SUB /#include\s+"SU_inc\/([A-Za-z0-9_]+\.txt)"/#include "SU_inc_l2\/\1"/ min=1
}
static void LowPassFilter(const struct SU_vector* self, unsigned dim, R* buffer, R cutoff, R scale){
//@BODY file=include/SQuIDS/SUNalg.h sig=/void\s+LowPassFilter\s*\(/ rules=common
//@SUB /auto&\s*suv1\s*=\s*\*this\s*;/const struct SU_vector suv1=*self;/ min=1
//@SUB /GetEvolveBufferSize\(\)/GetEvolveBufferSize(self)/ min=1
//@SUB /double\s*\*\s*(CX|SX)\s*=/R* \1=/ min=2
//@SUB /double\s+term\s*;/R term;/ min=1
//@SUB /#include\s+"SU_inc\/([A-Za-z0-9_]+\.txt)"/#include "SU_inc_l2\/\1"/ min=1
}
static void AvgRampFilter(const struct SU_vector* self, unsigned dim, R* buffer, R t, R cutoff, R scale){
//@BODY file=include/SQuIDS/SUNalg.h sig=/void\s+AvgRampFilter\s*\(/ rules=common
//@SUB /auto&\s*suv1\s*=\s*\*this\s*;/const struct SU_vector suv1=*self;/ min=1
//@SUB /GetEvolveBufferSize\(\)/GetEvolveBufferSize(self)/ min=1
//@SUB /double\s*\*\s*(CX|SX)\s*=/R* \1=/ min=2
//@SUB /double\s+term\s*;/R term;/ min=1
//@SUB /#include\s+"SU_inc\/([A-Za-z0-9_]+\.txt)"/#include "SU_inc_l2\/\1"/ min=1
}

#ifdef PSEL
#define FORP for(int p=PSEL;p<=PSEL;p++)
#else
#define FORP for(int p=0;p<NP;p++)
#endif
static R absR(R x){ return x<0?-x:x; }
static R factor(R x, R c, R r){ x=absR(x); c=absR(c); r=absR(r); return x>c ? 0 : (x>c-r ? (c-x)/r : 1); }   /* from the property text */
R in_t, in_t1, in_scale, in_cutoff, in_ramp;
int main(void){
  L2_SYMBOLS();
  in_t=nondet_R(); in_t1=nondet_R(); in_scale=nondet_R(); in_cutoff=nondet_R(); in_ramp=nondet_R();
  R h[N], buf[2*NP], ref[2*NP], old[2*NP]; _Bool avr[NP];
  for(int i=0;i<N;i++) h[i]=0;
  h[0]=nondet_R(); for(int k=1;k<D;k++) h[D*k+k]=nondet_R();
#if WHAT==6
  /* coincident levels: levels PJ and PK equal (all other levels arbitrary) */
#endif
  for(int i=0;i<2*NP;i++){ buf[i]=nondet_R(); ref[i]=nondet_R(); old[i]=buf[i]; }
  for(int i=0;i<NP;i++) avr[i]=nondet_R()>0;
  struct SU_vector H={D,N,h};
  struct mat MH=toMatrix(h);
  R om[NP]; { int p=0; for(int j=0;j<D;j++) for(int k=j+1;k<D;k++){ om[p]=MH.re[j][j]-MH.re[k][k]; p++; } }
  sq_thrown=0;
  PrepareEvolve(&H,D,ref,in_t);
#if WHAT==1
  FORP{ __CPROVER_assert(ref[p]==cos(om[p]*in_t), "plain table: CX[p]=cos(omega_p t)");
                         __CPROVER_assert(ref[NP+p]==sin(om[p]*in_t) || ref[NP+p]==-sin(om[p]*in_t), "plain table: SX[p]=+-sin(omega_p t) (sign fixed by the consumer, C03)"); }
#elif WHAT==2
  PrepareEvolveAvg(&H,D,buf,in_t,in_scale,avr);
  FORP{
    _Bool cut = absR(om[p]*in_t) > absR(in_scale);
    __CPROVER_assert(avr[p]==cut, "flag set exactly for the pairs whose phase exceeds the scale");
    __CPROVER_assert(cut ? (buf[p]==0 && buf[NP+p]==0) : (buf[p]==ref[p] && buf[NP+p]==ref[NP+p]), "averaged pair zeroed, others as in the unaveraged table");
  }
#elif WHAT==3 || WHAT==4
  __CPROVER_assume(absR(in_ramp)<=absR(in_cutoff));
  for(int i=0;i<2*NP;i++) buf[i]=ref[i];
#if WHAT==3
  LowPassFilter(&H,D,buf,in_cutoff,in_ramp);
#else
  AvgRampFilter(&H,D,buf,in_t,in_cutoff,in_ramp);
#endif
  FORP{
#if WHAT==3
    R f=factor(om[p],in_cutoff,in_ramp);
#else
    R f=factor(om[p]*in_t,in_cutoff,in_ramp);
#endif
    __CPROVER_assert(buf[p]==ref[p]*f && buf[NP+p]==ref[NP+p]*f, "pair multiplied by 1 / linear ramp / 0");
  }
#elif WHAT==5 || WHAT==6
  __CPROVER_assume(in_t<in_t1);
  PrepareEvolveRange(&H,D,buf,in_t,in_t1);
  FORP{
#if WHAT==5
    if(om[p]!=0){
      __CPROVER_assert(buf[p]==(sin(om[p]*in_t1)-sin(om[p]*in_t))/(om[p]*(in_t1-in_t)), "CX = exact average of cos(omega t)");
      R sx=(cos(om[p]*in_t)-cos(om[p]*in_t1))/(om[p]*(in_t1-in_t));
      R s_spec=sin(om[p]*in_t);   /* the sign convention of slot p is the one of the plain table (ref), which C03 ties to the consumer */
      __CPROVER_assert((ref[NP+p]==s_spec && buf[NP+p]==sx) || (ref[NP+p]==-s_spec && buf[NP+p]==-sx), "SX = exact average of the plain table's sin entry");
    }
#else
    if(om[p]==0) __CPROVER_assert(buf[p]==1 && buf[NP+p]==0, "coincident levels: average of cos is 1, of sin is 0 (finite)");
#endif
  }
#elif WHAT==7
  __CPROVER_assume(absR(in_ramp)>absR(in_cutoff));
  LowPassFilter(&H,D,buf,in_cutoff,in_ramp);
  __CPROVER_assert(sq_thrown==1, "LowPassFilter rejects ramp wider than cutoff");
  sq_thrown=0;
  AvgRampFilter(&H,D,buf,in_t,in_cutoff,in_ramp);
  __CPROVER_assert(sq_thrown==1, "AvgRampFilter rejects ramp wider than cutoff");
  for(int i=0;i<2*NP;i++) __CPROVER_assert(buf[i]==old[i], "nothing written when rejected");
  sq_thrown=0;
#endif
  __CPROVER_assert(sq_thrown==0, "no exception for supported dimension");
  return 0;
}
