/* C06 Layer 2: SU_vector::Rotate(i,j,theta,delta) with rotation_switcher.h and the 35 RotationSU{d}_{ij}.txt kernels.
 * Postcondition (from the property): M(out) = R^dagger M(A) R, R = identity except
 * R_ii=R_jj=cos(theta), R_ij=sin(theta) e^{-i delta}, R_ji=-sin(theta) e^{+i delta}.
 * Parameters: D, II, JJ (0-based, II<JJ); IA generator index, or IA_ALL (all generators in one VC), or none (A symbolic). */
#include "l2_prelude.h"
#include "gellmann.h"
#include "SU_inc_l2/dimension.h"
#define N (D*D)
int sq_thrown;
#define SQ_THROW(...) do{ sq_thrown=1; return SQ_RET; }while(0)
#define SQ_ASSERT(e)  __CPROVER_assert((e), "assert() of the real code")
#define SQ_NEW_ALIGNED(v,d,z)  do{ if(z) for(unsigned k_=0;k_<(d)*(d);k_++) (v).components[k_]=0; }while(0)
#define SQ_RET
struct SU_vector { unsigned dim; unsigned size; R* components; };

/* SU_vector SU_vector::Rotate(unsigned ii, unsigned jj, double th, double del) const; result storage passed in */
static void Rotate(const struct SU_vector* self, unsigned dim, struct SU_vector suv_rot, unsigned ii, unsigned jj, R th, R del){
//@BODY file=src/SUNalg.cpp sig=/SU_vector\s+SU_vector::Rotate\s*\(\s*unsigned\s+int\s+ii/ rules=common
//@SUB /const\s+SU_vector&\s*suv\s*=\s*\*this\s*;/const struct SU_vector suv=*self;/ min=1
//@SUB /SU_vector\s+suv_rot\s*=\s*make_aligned\s*\(\s*dim\s*\)\s*;/SQ_NEW_ALIGNED(suv_rot,dim,1);/ min=1
//@SUB /return\s+suv_rot\s*;/return;/ min=1
//@SUB /#include\s+<SQuIDS\/SU_inc\/rotation_switcher\.h>/#include "SU_inc_l2\/rotation_switcher.h"/ min=1
//@SUB /SQ_ASSERT\(i<j\s*&&\s*"[^"]*"\)/SQ_ASSERT(i<j)/ min=0
}

R in_th, in_del;
static void check_one(const R* a){
  R c[N]; for(int i=0;i<N;i++) c[i]=nondet_R();
  struct SU_vector A={D,N,(R*)a}, C={D,N,c};
  Rotate(&A,D,C,II,JJ,in_th,in_del);
  struct mat MA=toMatrix(a), MC=toMatrix(c);
  struct mat Rm; for(int i=0;i<D;i++) for(int j=0;j<D;j++){ Rm.re[i][j]=(i==j); Rm.im[i][j]=0; }
  R ct=cos(in_th), st=sin(in_th), cd=cos(in_del), sd=sin(in_del);
  Rm.re[II][II]=ct; Rm.re[JJ][JJ]=ct;
  Rm.re[II][JJ]=st*cd;   Rm.im[II][JJ]=-(st*sd);
  Rm.re[JJ][II]=-(st*cd); Rm.im[JJ][II]=-(st*sd);
  struct mat Rd=mdagger(&Rm), T=mmul(&MA,&Rm), E=mmul(&Rd,&T);
  MAT_ASSERT_EQ(MC,E,"rotation");
}
int main(void){
  L2_SYMBOLS();
  in_th=nondet_R(); in_del=nondet_R();
  sq_thrown=0;
  R a[N];
#ifdef LINEAR
  /* linearity of Rotate in the rotated vector, for every index pair of this dimension */
  { R a2[N], as[N]; R lam=nondet_R();
    for(int i=0;i<N;i++){ a[i]=nondet_R(); a2[i]=nondet_R(); as[i]=a[i]+lam*a2[i]; }
    struct SU_vector A={D,N,a}, A2={D,N,a2}, AS={D,N,as};
    for(unsigned p=0;p<D;p++) for(unsigned q=p+1;q<D;q++){
      R c1[N], c2[N], c3[N]; for(int i=0;i<N;i++){ c1[i]=nondet_R(); c2[i]=nondet_R(); c3[i]=nondet_R(); }
      struct SU_vector C1={D,N,c1}, C2={D,N,c2}, C3={D,N,c3};
      Rotate(&A,D,C1,p,q,in_th,in_del); Rotate(&A2,D,C2,p,q,in_th,in_del); Rotate(&AS,D,C3,p,q,in_th,in_del);
      for(int i=0;i<N;i++) __CPROVER_assert(c3[i]==c1[i]+lam*c2[i], "Rotate linear in the vector");
    }
  }
#elif defined(IA_ALL)
  for(int g=0;g<N;g++){ for(int i=0;i<N;i++) a[i]=(i==g)?1.0:0.0; check_one(a); }
#else
  for(int i=0;i<N;i++){
#ifdef IA
    a[i]=(i==IA)?1.0:0.0;
#else
    a[i]=nondet_R();
#endif
  }
  check_one(a);
#endif
  __CPROVER_assert(sq_thrown==0, "no exception for supported (dim,i,j)");
  return 0;
}
