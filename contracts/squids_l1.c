/* C04 / C10 Layer 1: the solver object SQuIDS (src/SQuIDS.cpp): Derive, set_system_pointers, RHS, Evolve, ini, move construction/assignment.
 * The SU_vector operations used inside are under contract elsewhere (C08/C09/C02); here they are ghost-logging stubs, so that what is
 * proved is the ASSEMBLY: which term is evaluated for which node / density matrix / scalar, with which hook arguments and time, in which
 * wrapper mode (= += -=), on which buffer, in which order -- for all 2^5 term-switch settings.  User hooks (HI, GammaRho, InteractionsRho,
 * GammaScalar, InteractionsScalar, PreDerive) have the weakest contract: any value, arguments recorded.
 * BOUNDED: the loops over nodes / matrices / scalars are unwound completely for nx<=NXB, nrhos<=NRB, nscalars<=NSB (layout arithmetic
 * ei*size_state+i*size_rho is symbolic x symbolic; DESIGN 3.2/7); results are labelled bounded. */
#include "su_l1.h"
#undef SQ_RET
#define SQ_RET
#ifndef NXG
#define NXG 4
#endif
#ifndef NXB
#define NXB 2
#define NRB 2
#define NSB 2
#endif
struct SU_state { struct SU_vector* rho; double* scalar; };
struct gsl_odeiv2_system { int (*function)(double,const double*,double*,void*); void* jacobian; size_t dimension; void* params; };
struct SQuIDS {
  bool CoherentRhoTerms, NonCoherentRhoTerms, OtherRhoTerms, GammaScalarTerms, OtherScalarTerms, AnyNumerics, is_init, adaptive_step;
  double* x; double t, t_ini; unsigned int nsteps, size_rho, size_state; double* system; const void* step; struct gsl_odeiv2_system sys;
  double h, h_min, h_max, abs_error, rel_error; struct SU_state* dstate; unsigned int nx, nsun, nrhos, nscalars;
  struct SU_state* state; struct SU_state* estate; double* last_dstate_ptr; double* last_estate_ptr; };
#define GSL_SUCCESS 0

/* ---- ghost event log --------------------------------------------------------------------------------------------------------- */
enum { K_PRE=1, K_HI, K_GAMMARHO, K_INTRHO, K_GAMMAS, K_INTS, K_ICOMM, K_ACOMM, K_PLUSEQ, K_SETALL, K_SETBACK,
       K_DRV_ALLOC, K_DRV_HMIN, K_DRV_HMAX, K_DRV_NMAX, K_DRV_APPLY, K_DRV_FIXED, K_DRV_FREE };
struct ev { int kind; unsigned ei, idx; double t; const void* a; const void* b; const void* c; int w; double v; };
#define LOGN 96
struct ev lg[LOGN]; int nlog;
static void LOG(int kind, unsigned ei, unsigned idx, double t, const void* a, const void* b, const void* c, int w, double v){
  __CPROVER_assert(nlog<LOGN, "ghost log large enough"); lg[nlog].kind=kind; lg[nlog].ei=ei; lg[nlog].idx=idx; lg[nlog].t=t; lg[nlog].a=a; lg[nlog].b=b; lg[nlog].c=c; lg[nlog].w=w; lg[nlog].v=v; nlog++; }
/* user hooks: weakest contract */
static void hook_vec(int kind, const struct SQuIDS* self, unsigned ix, unsigned irho, double t, struct SU_vector* out){ LOG(kind,ix,irho,t,out,0,0,0,0.0); }
static double hook_scalar(int kind, const struct SQuIDS* self, unsigned ix, unsigned is, double t){ double v=nondet_double(); LOG(kind,ix,is,t,0,0,0,0,v); return v; }
static void hook_pre(struct SQuIDS* self, double t){ LOG(K_PRE,0,0,t,0,0,0,0,0.0); }
/* SU_vector operations (contracts: C02/C08/C09): logged */
static void op_assign_icomm(struct SU_vector* target, const struct SU_vector* a, const struct SU_vector* b, int w){ LOG(K_ICOMM,0,0,0.0,target,a,b,w,0.0); }
static void op_assign_acomm(struct SU_vector* target, const struct SU_vector* a, const struct SU_vector* b, int w){ LOG(K_ACOMM,0,0,0.0,target,a,b,w,0.0); }
static void op_pluseq(struct SU_vector* target, const struct SU_vector* a){ LOG(K_PLUSEQ,0,0,0.0,target,a,0,1,0.0); }
static void op_setall(struct SU_vector* target, double v){ LOG(K_SETALL,0,0,0.0,target,0,0,0,v); }
static void op_setbacking(struct SU_vector* v, double* storage){ v->components=storage; v->isinit=false; v->isinit_d=true; LOG(K_SETBACK,0,0,0.0,v,storage,0,0,0.0); }   /* SetBackingStore on a non-owning view (C08) */
/* GSL ODE driver: ASSUMED contract (call order and arguments logged; on success apply() leaves *t == t1, apply_fixed_step() leaves *t == t + n*h) */
int g_gsl_status; int g_driver;
static void* gsl_odeiv2_driver_alloc_y_new(const struct gsl_odeiv2_system* sys, const void* T, double hstart, double epsabs, double epsrel){ LOG(K_DRV_ALLOC,0,0,hstart,sys,T,0,0,epsabs); lg[nlog-1].t=hstart; lg[nlog-1].v=epsabs; g_driver=1; (void)epsrel; return &g_driver; }
static int gsl_odeiv2_driver_set_hmin(void* d, double v){ LOG(K_DRV_HMIN,0,0,0.0,d,0,0,0,v); return 0; }
static int gsl_odeiv2_driver_set_hmax(void* d, double v){ LOG(K_DRV_HMAX,0,0,0.0,d,0,0,0,v); return 0; }
static int gsl_odeiv2_driver_set_nmax(void* d, unsigned long n){ LOG(K_DRV_NMAX,0,0,0.0,d,0,0,(int)n,0.0); return 0; }
static int gsl_odeiv2_driver_apply(void* d, double* t, double t1, double* y){ LOG(K_DRV_APPLY,0,0,t1,d,t,y,0,*t); if(g_gsl_status==GSL_SUCCESS) *t=t1; return g_gsl_status; }
static int gsl_odeiv2_driver_apply_fixed_step(void* d, double* t, double h, unsigned long n, double* y){ LOG(K_DRV_FIXED,0,0,h,d,t,y,(int)n,*t); if(g_gsl_status==GSL_SUCCESS) *t=nondet_double(); return g_gsl_status; }   /* end time t+n*h: GSL's business */
static void gsl_odeiv2_driver_free(void* d){ LOG(K_DRV_FREE,0,0,0.0,d,0,0,0,0.0); g_driver=0; }

/* ---- extracted functions ------------------------------------------------------------------------------------------------------- */
void SQuIDS_Derive(struct SQuIDS* self, double at){
//@BODY file=src/SQuIDS.cpp sig=/void\s+SQuIDS::Derive\s*\(/ rules=common,squids_forms,squids_members
}
void SQuIDS_set_system_pointers(struct SQuIDS* self, double* sp, double* dp){
//@BODY file=src/SQuIDS.cpp sig=/void\s+SQuIDS::set_system_pointers\s*\(/ rules=common,squids_forms,squids_members
}
#undef SQ_RET
#define SQ_RET 0
int RHS(double t, const double* state_dbl_in, double* state_dbl_out, void* par){
//@BODY file=src/SQuIDS.cpp sig=/\bint\s+RHS\s*\(\s*double\s+t\s*,/ nth=0 rules=common
//@SUB /SQuIDS\*\s*dms\s*=\s*static_cast<SQuIDS\*>\s*\(\s*par\s*\)\s*;/struct SQuIDS* dms=(struct SQuIDS*)par;/ min=1
//@SUB /dms->set_system_pointers\s*\(\s*const_cast<double\*>\s*\(\s*state_dbl_in\s*\)\s*,\s*state_dbl_out\s*\)\s*;/SQuIDS_set_system_pointers(dms,(double*)state_dbl_in,state_dbl_out);/ min=1
//@SUB /dms->Derive\s*\(\s*t\s*\)\s*;/SQuIDS_Derive(dms,t);/ min=1
}
#undef SQ_RET
#define SQ_RET
void SQuIDS_Evolve(struct SQuIDS* self, double dt){
//@BODY file=src/SQuIDS.cpp sig=/void\s+SQuIDS::Evolve\s*\(/ rules=common,squids_forms,squids_members
//@SUB /throw\s+std::runtime_error\s*\(\s*"SQUIDS::Evolve: Error in GSL ODE solver \("\s*\+\s*std::string\s*\(\s*gsl_strerror\s*\(\s*gsl_status\s*\)\s*\)\s*\+\s*"\)"\s*\)\s*;/SQ_THROW("SQUIDS::Evolve: Error in GSL ODE solver");/ min=1
//@SUB /gsl_odeiv2_driver\s*\*\s*d\s*=/void* d=/ min=1
//@SUB /system\.get\s*\(\s*\)/system/ min=1
}

/* ini(): allocation statements are logged stubs handing out the harness's arrays; `v = SU_vector(dim,ptr)` (move assignment from an externally backed temporary, contract C08) */
enum { ID_state=0, ID_estate=1, ID_dstate=2, K_NEWSYS=60, K_XRESIZE, K_NEWSTATES, K_NEWRHOS, K_VIEW };
static double* op_new_system(unsigned n);
static void op_x_resize(struct SQuIDS* self, unsigned n){ LOG(K_XRESIZE,0,n,0.0,0,0,0,0,0.0); }
static struct SU_state* op_new_states(int which, unsigned n);
static struct SU_vector* op_new_rhos(int which, unsigned ei, unsigned n);
static void op_assign_ext(struct SU_vector* v, unsigned dim, double* storage){ v->dim=dim; v->size=dim*dim; v->components=storage; v->isinit=false; v->isinit_d=true; LOG(K_VIEW,0,dim,0.0,v,storage,0,0,0.0); }
void SQuIDS_ini(struct SQuIDS* self, unsigned int n, unsigned int nsu, unsigned int nrh, unsigned int nsc, double ti){
//@BODY file=src/SQuIDS.cpp sig=/void\s+SQuIDS::ini\s*\(/ rules=common,squids_ini,squids_members
}
/* ---- harnesses ----------------------------------------------------------------------------------------------------------------- */
struct SU_vector g_rho_s[NXB][NRB], g_rho_e[NXB][NRB], g_rho_d[NXB][NRB];
struct SU_state g_state[NXB], g_estate[NXB], g_dstate[NXB];
#define NBUF (NXB*(NRB*36+NSB)+1)
double g_system[NBUF], g_buf_in[NBUF], g_buf_out[NBUF];
static double* op_new_system(unsigned n){ LOG(K_NEWSYS,0,n,0.0,0,0,0,0,0.0); return g_system; }
static struct SU_state* op_new_states(int which, unsigned n){ LOG(K_NEWSTATES,0,n,0.0,0,0,0,which,0.0); return which==ID_state?g_state:(which==ID_estate?g_estate:g_dstate); }
static struct SU_vector* op_new_rhos(int which, unsigned ei, unsigned n){ LOG(K_NEWRHOS,ei,n,0.0,0,0,0,which,0.0); unsigned e=ei<NXB?ei:0; return which==ID_state?g_rho_s[e]:(which==ID_estate?g_rho_e[e]:g_rho_d[e]); }
static void mk_solver(struct SQuIDS* S){
#ifdef EXACT_SIZES
  S->nx=NXB; S->nrhos=NRB; S->nscalars=NSB; S->nsun=nondet_unsigned();      /* one job per (nx,nrhos,nscalars): concrete trip counts keep the ghost log index concrete */
#else
  S->nx=nondet_unsigned(); S->nrhos=nondet_unsigned(); S->nscalars=nondet_unsigned(); S->nsun=nondet_unsigned();
#endif
  __CPROVER_assume(1<=S->nx && S->nx<=NXB && 1<=S->nrhos && S->nrhos<=NRB && S->nscalars<=NSB && 2<=S->nsun && S->nsun<=6);
  S->size_rho=S->nsun*S->nsun; S->size_state=S->size_rho*S->nrhos+S->nscalars;
#ifdef FLAGS   /* one job per setting of the five term switches (and of AnyNumerics/adaptive_step): keeps the ghost log index concrete */
  S->CoherentRhoTerms=(FLAGS&1)!=0; S->NonCoherentRhoTerms=(FLAGS&2)!=0; S->OtherRhoTerms=(FLAGS&4)!=0; S->GammaScalarTerms=(FLAGS&8)!=0; S->OtherScalarTerms=(FLAGS&16)!=0;
  S->AnyNumerics=(FLAGS&32)!=0; S->adaptive_step=(FLAGS&64)!=0; S->is_init=true;
#else
  S->CoherentRhoTerms=nondet_bool(); S->NonCoherentRhoTerms=nondet_bool(); S->OtherRhoTerms=nondet_bool(); S->GammaScalarTerms=nondet_bool(); S->OtherScalarTerms=nondet_bool();
  S->AnyNumerics=nondet_bool(); S->is_init=true; S->adaptive_step=nondet_bool();
#endif
#ifndef FIXED_NSTEPS
#define FIXED_NSTEPS 0
#endif
  S->nsteps=nondet_unsigned(); __CPROVER_assume(S->nsteps>=1 && S->nsteps<=1000000);
  if(FIXED_NSTEPS) S->nsteps=FIXED_NSTEPS;       /* division by a constant power of two keeps the step-size comparison within the SAT back end's reach */
  S->t=nondet_double(); S->t_ini=nondet_double(); S->h=nondet_double(); S->h_min=nondet_double(); S->h_max=nondet_double(); S->abs_error=nondet_double(); S->rel_error=nondet_double();
  S->system=g_system; S->state=g_state; S->estate=g_estate; S->dstate=g_dstate; S->step=(const void*)nondet_size_t();
  S->sys.function=RHS; S->sys.jacobian=NULL; S->sys.dimension=S->nx*S->size_state; S->sys.params=S;
  for(unsigned e=0;e<NXB;e++){ g_state[e].rho=g_rho_s[e]; g_estate[e].rho=g_rho_e[e]; g_dstate[e].rho=g_rho_d[e];
    g_estate[e].scalar=g_buf_in+(e*S->size_state+S->nrhos*S->size_rho); g_dstate[e].scalar=g_buf_out+(e*S->size_state+S->nrhos*S->size_rho); g_state[e].scalar=g_system+(e*S->size_state+S->nrhos*S->size_rho); }
  S->last_dstate_ptr=(double*)nondet_size_t(); S->last_estate_ptr=(double*)nondet_size_t();
  /* the stepper's derivative buffer holds ARBITRARY numbers before a call (GSL does not zero it): a derivative that is only accumulated into is seen.
   * The in-step scalars are distinct non-zero powers of two: products with them stay cheap for the SAT back end (a symbolic x symbolic floating-point
   * product compared with its recomputation is out of reach, DESIGN 7), yet a dropped, misplaced or mis-indexed factor is visible. */
  __CPROVER_havoc_object(g_buf_out);
#ifdef SCALAR_CONSTS
  for(unsigned e=0;e<NXB;e++) for(unsigned s=0;s<NSB;s++) if(e<S->nx && s<S->nscalars) g_estate[e].scalar[s]=(double)(1u<<(2*e+s+1))*0.125;
#endif
  nlog=0; sq_thrown=0;
}
#define EXPECT(k,KIND,EI,IDX,TT,A,B,C,W) do{ __CPROVER_assert(k<nlog && lg[k].kind==(KIND) && lg[k].ei==(EI) && lg[k].idx==(IDX) && SQ_SAME(lg[k].t,(TT)) && lg[k].a==(const void*)(A) && lg[k].b==(const void*)(B) && lg[k].c==(const void*)(C) && lg[k].w==(W), "C04: event #k of the right-hand side assembly is the documented one"); k++; }while(0)

/* C10: (re-)initialisation starts a fresh clock and a fresh state layout, whatever the object held before */
void h_ini(void){
  struct SQuIDS S; mk_solver(&S);                     /* arbitrary previous contents, including stale cached buffer pointers */
  unsigned n=NXB, nrh=NRB, nsc=NSB, nsu=nondet_unsigned(); __CPROVER_assume(2<=nsu && nsu<=6); double ti=nondet_double();
  SQuIDS_ini(&S,n,nsu,nrh,nsc,ti);
  __CPROVER_assert(SQ_SAME(S.t,ti) && SQ_SAME(S.t_ini,ti), "C10: re-initialisation starts a fresh clock: t == t_ini == the given initial time");
  __CPROVER_assert(S.last_estate_ptr==NULL && S.last_dstate_ptr==NULL, "C10: the cached last-used buffers are forgotten (the next right-hand side re-aliases every view)");
  __CPROVER_assert(S.is_init && S.nx==n && S.nsun==nsu && S.nrhos==nrh && S.nscalars==nsc && S.size_rho==nsu*nsu && S.size_state==nsu*nsu*nrh+nsc && S.sys.dimension==(size_t)(n*S.size_state),
                   "C10: sizes, and the dimension GSL integrates over, are those of the new problem");
  int nsys=0, nst=0, nrho=0; for(int k=0;k<nlog && k<48;k++){ if(lg[k].kind==K_NEWSYS){ nsys++; __CPROVER_assert(lg[k].idx==n*S.size_state,"C10: system buffer holds nx*size_state numbers"); }
    if(lg[k].kind==K_NEWSTATES){ nst++; __CPROVER_assert(lg[k].idx==n,"C10: one node record per x value"); } if(lg[k].kind==K_NEWRHOS){ nrho++; __CPROVER_assert(lg[k].idx==nrh,"C10: nrhos matrices per node"); } }
  __CPROVER_assert(nlog<=48, "ghost log of ini scanned completely");
  __CPROVER_assert(nsys==1 && nst==3 && nrho==3*(int)n && S.system==g_system && S.state==g_state && S.estate==g_estate && S.dstate==g_dstate, "C10: fresh storage for the state, the in-step view and the derivative");
  for(unsigned e=0;e<NXB;e++){ for(unsigned i=0;i<NRB;i++){
      __CPROVER_assert(g_rho_s[e][i].components==g_system+(e*S.size_state+i*S.size_rho) && g_rho_s[e][i].dim==nsu && g_rho_s[e][i].isinit_d && !g_rho_s[e][i].isinit, "C10: stored matrices view the fresh system buffer at ei*size_state+i*size_rho");
      __CPROVER_assert(g_rho_e[e][i].components==g_rho_s[e][i].components && g_rho_e[e][i].dim==nsu, "C10: after initialisation the in-step view coincides with the stored state");
      __CPROVER_assert(g_rho_d[e][i].components==NULL && g_rho_d[e][i].dim==nsu, "C10: derivative views have no storage until the first right-hand side"); }
    if(nsc>0) __CPROVER_assert(g_state[e].scalar==g_system+(e*S.size_state+nrh*S.size_rho) && g_estate[e].scalar==g_state[e].scalar, "C10: scalars follow the matrices of their node; in-step view coincides"); }
  __CPROVER_assert(0,"REACH end of harness");
}
/* C04: Derive assembles d(rho)/dt = [Coh] i[rho,HI] - [NonCoh] {GammaRho,rho} + [Other] InteractionsRho and d(s)/dt = -[GS] GammaScalar*s + [OS] InteractionsScalar,
 * independently for every node, matrix and scalar, each hook called with (node index, matrix/scalar index, the stepper's time), disabled terms not evaluated at all */
void h_Derive(void){
  struct SQuIDS S; mk_solver(&S); double at=nondet_double();
  double es[NXB][NSB+1]; for(unsigned e=0;e<NXB;e++) for(unsigned s=0;s<NSB;s++) es[e][s]=g_estate[e].scalar[s<S.nscalars?s:0];
  SQuIDS_Derive(&S,at);
  __CPROVER_assert(SQ_SAME(S.t,at), "C04 C10: the object's clock is the stepper's current time");
  int k=0;
  EXPECT(k,K_PRE,0,0,at,0,0,0,0);                                         /* PreDerive(at) exactly once, first */
  for(unsigned ei=0;ei<NXB;ei++) if(ei<S.nx){
    for(unsigned i=0;i<NRB;i++) if(i<S.nrhos){
      const struct SU_vector* tmp;
      if(S.CoherentRhoTerms){ __CPROVER_assert(k<nlog,"HI called"); tmp=lg[k].a; EXPECT(k,K_HI,ei,i,at,tmp,0,0,0); EXPECT(k,K_ICOMM,0,0,0.0,&g_rho_d[ei][i],&g_rho_e[ei][i],tmp,0); }
      else { __CPROVER_assert(k<nlog && lg[k].kind==K_SETALL && lg[k].a==&g_rho_d[ei][i] && lg[k].v==0.0, "C04: disabled coherent term: derivative starts from zero"); k++; }
      if(S.NonCoherentRhoTerms){ __CPROVER_assert(k<nlog,"GammaRho called"); tmp=lg[k].a; EXPECT(k,K_GAMMARHO,ei,i,at,tmp,0,0,0); EXPECT(k,K_ACOMM,0,0,0.0,&g_rho_d[ei][i],tmp,&g_rho_e[ei][i],2); }
      if(S.OtherRhoTerms){ __CPROVER_assert(k<nlog,"InteractionsRho called"); tmp=lg[k].a; EXPECT(k,K_INTRHO,ei,i,at,tmp,0,0,0); EXPECT(k,K_PLUSEQ,0,0,0.0,&g_rho_d[ei][i],tmp,0,1); }
    }
    for(unsigned is=0;is<NSB;is++) if(is<S.nscalars){
      double d=0.;
      if(S.GammaScalarTerms){ __CPROVER_assert(k<nlog,"GammaScalar called"); double G=lg[k].v; EXPECT(k,K_GAMMAS,ei,is,at,0,0,0,0); d += -es[ei][is]*G; }
      if(S.OtherScalarTerms){ __CPROVER_assert(k<nlog,"InteractionsScalar called"); double I=lg[k].v; EXPECT(k,K_INTS,ei,is,at,0,0,0,0); d += I; }
      __CPROVER_assert(SQ_SAME(g_dstate[ei].scalar[is], d), "C04: scalar derivative = -[GammaScalarTerms] GammaScalar*s + [OtherScalarTerms] InteractionsScalar");
    }
  }
  __CPROVER_assert(k==nlog, "C04: nothing else is evaluated (disabled terms contribute nothing, no hook is called twice)");
  __CPROVER_assert(0,"REACH end of harness");
}

/* C04 C10: set_system_pointers re-targets every view onto the stepper's buffers with the node-major layout, skipping a buffer it already views */
void h_set_system_pointers(void){
  struct SQuIDS S; mk_solver(&S);
  int same_e=nondet_bool(), same_d=nondet_bool();
  double* sp=g_buf_in; double* dp=g_buf_out;
  if(same_e){ S.last_estate_ptr=sp; for(unsigned e=0;e<NXB;e++){ for(unsigned i=0;i<NRB;i++) g_rho_e[e][i].components=sp+(e*S.size_state+i*S.size_rho); g_estate[e].scalar=sp+(e*S.size_state+S.nrhos*S.size_rho); } }
  else __CPROVER_assume(S.last_estate_ptr!=sp);
  if(same_d){ S.last_dstate_ptr=dp; for(unsigned e=0;e<NXB;e++){ for(unsigned i=0;i<NRB;i++) g_rho_d[e][i].components=dp+(e*S.size_state+i*S.size_rho); g_dstate[e].scalar=dp+(e*S.size_state+S.nrhos*S.size_rho); } }
  else __CPROVER_assume(S.last_dstate_ptr!=dp);
  unsigned ge=nondet_unsigned(), gi=nondet_unsigned(); __CPROVER_assume(ge<S.nx && gi<S.nrhos);
  SQuIDS_set_system_pointers(&S,sp,dp);
  __CPROVER_assert(g_rho_e[ge][gi].components==sp+(ge*S.size_state+gi*S.size_rho) && g_estate[ge].scalar==sp+(ge*S.size_state+S.nrhos*S.size_rho), "C04: evolution-time view (node ge, matrix gi) lies at ge*size_state+gi*size_rho of the input buffer; scalars after the matrices");
  __CPROVER_assert(g_rho_d[ge][gi].components==dp+(ge*S.size_state+gi*S.size_rho) && g_dstate[ge].scalar==dp+(ge*S.size_state+S.nrhos*S.size_rho), "C04: derivative view (node ge, matrix gi) lies at ge*size_state+gi*size_rho of the output buffer");
  __CPROVER_assert(S.last_estate_ptr==sp && S.last_dstate_ptr==dp, "C10: the last-buffer cache names the buffers now viewed");
  __CPROVER_assert(ge*S.size_state+gi*S.size_rho+S.size_rho <= S.nx*S.size_state && ge*S.size_state+S.nrhos*S.size_rho+S.nscalars <= S.nx*S.size_state, "C15: every view lies inside the buffer of sys.dimension doubles");
  __CPROVER_assert(0,"REACH end of harness");
}

void h_RHS(void){
  struct SQuIDS S; mk_solver(&S); double t=nondet_double();
  __CPROVER_assume(S.last_estate_ptr!=g_buf_in && S.last_dstate_ptr!=g_buf_out);
  int r=RHS(t,g_buf_in,g_buf_out,&S);
  __CPROVER_assert(r==GSL_SUCCESS && SQ_SAME(S.t,t), "C04: the GSL callback evaluates the right-hand side at the stepper's time and reports success");
  __CPROVER_assert(S.last_estate_ptr==g_buf_in && S.last_dstate_ptr==g_buf_out && g_rho_e[0][0].components==g_buf_in && g_rho_d[0][0].components==g_buf_out, "C04: ... on exactly the buffers the stepper passed");
  __CPROVER_assert(0,"REACH end of harness");
}

/* C04 C10: Evolve */
void h_Evolve(void){
  struct SQuIDS S; mk_solver(&S); double dt=nondet_double(); g_gsl_status=nondet_int();
  double t0=S.t; double sys_old=g_system[gk<NBUF?gk:0];
  unsigned ge=nondet_unsigned(), gi=nondet_unsigned(); __CPROVER_assume(ge<S.nx && gi<S.nrhos);
  double* old_e=g_rho_e[ge][gi].components;
  SQuIDS_Evolve(&S,dt);
  __CPROVER_assert(SQ_SAME(g_system[gk<NBUF?gk:0],sys_old), "C10: Evolve itself never writes the stored state (only the ODE driver does)");
  if(!S.AnyNumerics){
    __CPROVER_assert(sq_thrown==0 && SQ_SAME(S.t,t0+dt), "C10: without numerical terms the clock advances by dt");
    __CPROVER_assert(nlog==1 && lg[0].kind==K_PRE && SQ_SAME(lg[0].t,t0+dt), "C10: ... and the pre-derivative callback is invoked exactly once with the new time");
    __CPROVER_assert(g_rho_e[ge][gi].components==old_e, "C10: ... views untouched");
  } else {
    int k=0;
    EXPECT(k,K_DRV_ALLOC,0,0,S.h,&S.sys,S.step,0,0); __CPROVER_assert(SQ_SAME(lg[0].v,S.abs_error), "C04: driver created for this object's system with the configured stepper, initial step and tolerances");
    __CPROVER_assert(lg[1].kind==K_DRV_HMIN && SQ_SAME(lg[1].v,S.h_min) && lg[2].kind==K_DRV_HMAX && SQ_SAME(lg[2].v,S.h_max) && lg[3].kind==K_DRV_NMAX && lg[3].w==0, "C04: step bounds configured, no step-count limit");
    if(S.adaptive_step) __CPROVER_assert(lg[4].kind==K_DRV_APPLY && SQ_SAME(lg[4].t,t0+dt) && lg[4].b==&S.t && lg[4].c==g_system && SQ_SAME(lg[4].v,t0), "C04 C10: adaptive stepping integrates the stored state from t to t+dt");
    else __CPROVER_assert(lg[4].kind==K_DRV_FIXED && lg[4].w==(int)S.nsteps && lg[4].b==&S.t && lg[4].c==g_system && SQ_SAME(lg[4].v,t0) && (!FIXED_NSTEPS || SQ_SAME(lg[4].t, dt/S.nsteps)), "C04 C10: fixed stepping takes nsteps steps of size dt/nsteps on the stored state, starting at the current time (step size compared for nsteps = 4: job parameter)");
    __CPROVER_assert(lg[5].kind==K_DRV_FREE && g_driver==0 && nlog==6+(sq_thrown==0?(int)(S.nx*S.nrhos):0), "C15: the driver is released on every path; nothing else happens but re-aliasing the views");
    __CPROVER_assert((sq_thrown==1) == (g_gsl_status!=GSL_SUCCESS), "C04: a failing integration is reported as an exception");
    if(sq_thrown==0){
      __CPROVER_assert(g_rho_e[ge][gi].components==g_system+(ge*S.size_state+gi*S.size_rho) && (S.nscalars==0 || g_estate[ge].scalar==g_system+(ge*S.size_state+S.nrhos*S.size_rho)), "C10: after Evolve the in-step view coincides with the stored state");
      if(S.adaptive_step) __CPROVER_assert(SQ_SAME(S.t,t0+dt), "C10: clock = t+dt after a successful adaptive integration (GSL contract)");
    }
  }
  __CPROVER_assert(0,"REACH end of harness");
}

/* ======== C05: expectation values and x-interpolation (src/SQuIDS.cpp:260-348) =================================================== */
enum { K_H0=40, K_MUL, K_EVOL, K_FASTEVOL, K_DOT, K_PREPAVG, K_ADDRR, K_BUFSIZE, K_COMB };
struct evbuf { struct SU_vector state; struct SU_vector op; };                 /* SQuIDS::expectationValueDBuffer */
double* g_x; unsigned g_nxgrid;
/* std::lower_bound on the node grid: ASSUMED contract for a sorted range: smallest k with !(x[k]<xi), or n */
#ifdef NXU
/* Grid of ANY length (nx<=NXU is the size of the array object only): the harness is loop free, so the universally quantified preconditions -- grid strictly
 * increasing, finite, state[e].rho is node e's block of density matrices -- are INSTANTIATED here, at the indices a call that brackets with lower_bound can
 * consult (0, 1, k-1, k, n-1), instead of being established by a loop over all nodes.  g_xid records the bracketing index as a witness for the harness
 * (the harness asserts that the logged operands ARE the states of nodes g_xid, g_xid+1 and that they bracket x). */
static size_t g_xid;
#define SQ_FIN(v) (!SQ_ISNAN(v) && !__CPROVER_isinfd(v))
static void sq_grid_instances(const double* x, size_t n, size_t k){
  size_t a = k>0 ? k-1 : 0; g_xid=a;
  __CPROVER_assume(SQ_FIN(x[0]) && SQ_FIN(x[1]) && SQ_FIN(x[n-1]) && x[0]<x[1] && (n==2 || x[1]<x[n-1]));
  if(a+1<n){ __CPROVER_assume(SQ_FIN(x[a]) && SQ_FIN(x[a+1]) && x[a]<x[a+1] && (a==0 || x[0]<x[a]) && (a+1==n-1 || x[a+1]<x[n-1]));
    g_state[a].rho=g_rho_s[a]; g_state[a+1].rho=g_rho_s[a+1]; }
}
#else
#define sq_grid_instances(x,n,k) ((void)0)
#endif
static size_t sq_lower_bound(const double* x, size_t n, double xi){ size_t k=nondet_size_t(); __CPROVER_assume(k<=n && (k==n || !(x[k]<xi)) && (k==0 || x[k-1]<xi)); sq_grid_instances(x,n,k); return k; }
/* std::upper_bound: smallest k with xi<x[k], or n (assumed contract; the library is expected to use lower_bound -- whichever it calls is modelled) */
static size_t sq_upper_bound(const double* x, size_t n, double xi){ size_t k=nondet_size_t(); __CPROVER_assume(k<=n && (k==n || xi<x[k]) && (k==0 || !(xi<x[k-1]))); sq_grid_instances(x,n,k); return k; }
static void hook_H0(const struct SQuIDS* self, double x, unsigned irho, struct SU_vector* out){ LOG(K_H0,0,irho,x,out,0,0,0,0.0); }
static void op_assign_mul(struct SU_vector* target, const struct SU_vector* a, double s, int w){ LOG(K_MUL,0,0,s,target,a,0,w,0.0); }
static void op_assign_evol(struct SU_vector* target, const struct SU_vector* h0, const struct SU_vector* a, double tau, int w){ LOG(K_EVOL,0,0,tau,target,h0,a,w,0.0); }
static void op_assign_fastevol(struct SU_vector* target, const struct SU_vector* a, const double* buf, int w){ LOG(K_FASTEVOL,0,0,0.0,target,a,buf,w,0.0); }
static double op_dot(const struct SU_vector* a, const struct SU_vector* b){ double v=nondet_double(); LOG(K_DOT,0,0,0.0,a,b,0,0,v); return v; }
static void op_prepare_avg(const struct SU_vector* h0, double* buf, double tau, double scale, void* avr){ LOG(K_PREPAVG,0,0,tau,h0,buf,avr,0,scale); }
static double g_evolbuf[8];
/* new double[h0.GetEvolveBufferSize()]: a buffer large enough for that operator (logged with the operator it was sized for) */
static double* op_evolbuf(const struct SU_vector* h0){ LOG(K_BUFSIZE,0,0,0.0,h0,g_evolbuf,0,0,0.0); return g_evolbuf; }
/* d1*f1 + d2*f2 of the averaging overload: logged (two entries), value arbitrary: the arithmetic is a one-line Layer-2 fact */
static double op_comb(double d1, double f1, double d2, double f2){ double v=nondet_double(); LOG(K_COMB,0,0,d1,0,0,0,0,f1); LOG(K_COMB,1,0,d2,0,0,0,0,f2); lg[nlog-1].w=1; return v; }
#undef SQ_RET
#define SQ_RET 0.0
double SQuIDS_GetExpectationValueD_avg(const struct SQuIDS* self, const struct SU_vector* op, unsigned int nrh, double xi, struct evbuf* buf, double scale, void* avr){
//@BODY file=src/SQuIDS.cpp sig=/double\s+SQuIDS::GetExpectationValueD\s*\(\s*const\s+SU_vector&\s*op\s*,\s*unsigned\s+int\s+nrh\s*,\s*double\s+xi\s*,\s*SQuIDS::expectationValueDBuffer&\s*buf\s*,\s*double\s+scale/ rules=common,squids_c05,squids_members
}
double SQuIDS_GetExpectationValue_avg(const struct SQuIDS* self, const struct SU_vector* op, unsigned int nrh, unsigned int i, double scale, void* avr){
//@BODY file=src/SQuIDS.cpp sig=/double\s+SQuIDS::GetExpectationValue\s*\(\s*SU_vector\s+op\s*,\s*unsigned\s+int\s+nrh\s*,\s*unsigned\s+int\s+i\s*,\s*double\s+scale/ rules=common,squids_c05,squids_members
}
double SQuIDS_GetExpectationValueD(const struct SQuIDS* self, const struct SU_vector* op, unsigned int nrh, double xi, struct evbuf* buf){
//@BODY file=src/SQuIDS.cpp sig=/double\s+SQuIDS::GetExpectationValueD\s*\(\s*const\s+SU_vector&\s*op\s*,\s*unsigned\s+int\s+nrh\s*,\s*double\s+xi\s*,\s*SQuIDS::expectationValueDBuffer&\s*buf\s*\)/ rules=common,squids_c05,squids_members
}
double SQuIDS_GetExpectationValue(const struct SQuIDS* self, const struct SU_vector* op, unsigned int nrh, unsigned int i){
//@BODY file=src/SQuIDS.cpp sig=/double\s+SQuIDS::GetExpectationValue\s*\(\s*SU_vector\s+op\s*,\s*unsigned\s+int\s+nrh\s*,\s*unsigned\s+int\s+i\s*\)/ rules=common,squids_c05,squids_members
}
#undef SQ_RET
#define SQ_RET
void SQuIDS_GetIntermediateState(const struct SQuIDS* self, struct SU_vector* ret, unsigned int nrh, double xi){
//@BODY file=src/SQuIDS.cpp sig=/SU_vector\s+SQuIDS::GetIntermediateState\s*\(/ rules=common,squids_c05,squids_members
}

#ifdef NXU
static void mk_grid(struct SQuIDS* S, double* xi){        /* loop free: contents of the grid and of state[] are arbitrary; see sq_grid_instances */
  S->nx=nondet_unsigned(); __CPROVER_assume(2<=S->nx && S->nx<=NXU);
  S->x=malloc(NXU*sizeof(double)); __CPROVER_assume(S->x!=NULL);
  *xi=nondet_double(); __CPROVER_assume(!SQ_ISNAN(*xi));
  S->t=nondet_double(); S->t_ini=nondet_double(); S->state=g_state;
  nlog=0; sq_thrown=0;
}
#define SQ_XID(var) unsigned var=(unsigned)g_xid
#define SQ_NODE(i)  do{ g_state[i].rho=g_rho_s[i]; }while(0)
#else
#define SQ_XID(var) unsigned var=0; for(unsigned k=0;k+1<NXG;k++) if(lg[0].b==&g_rho_s[k][nrh]) var=k
#define SQ_NODE(i)  ((void)0)
static void mk_grid(struct SQuIDS* S, double* xi){
  S->nx=nondet_unsigned(); __CPROVER_assume(2<=S->nx && S->nx<=NXG);
  S->x=malloc(NXG*sizeof(double)); __CPROVER_assume(S->x!=NULL);
  for(unsigned k=0;k<NXG;k++){ S->x[k]=nondet_double(); __CPROVER_assume(!SQ_ISNAN(S->x[k]) && !__CPROVER_isinfd(S->x[k])); if(k>0 && k<S->nx) __CPROVER_assume(S->x[k-1]<S->x[k]); }
  *xi=nondet_double(); __CPROVER_assume(!SQ_ISNAN(*xi));
  S->t=nondet_double(); S->t_ini=nondet_double(); S->state=g_state; for(unsigned e=0;e<NXB;e++) g_state[e].rho=g_rho_s[e];
  nlog=0; sq_thrown=0;
}
#endif
#ifndef NXG
#define NXG 4
#endif
/* C05: for x inside the node range the convex combination of the two bracketing nodes' states, H0 evaluated at x itself, evolution over t-t_ini; outside: an error */
void h_GetExpectationValueD(void){
  struct SQuIDS S; double xi; mk_grid(&S,&xi); struct SU_vector op; struct evbuf buf; unsigned nrh=nondet_unsigned(); __CPROVER_assume(nrh<NRB);
  double r=SQuIDS_GetExpectationValueD(&S,&op,nrh,xi,&buf);
  __CPROVER_assert((sq_thrown==1) == (xi<S.x[0] || xi>S.x[S.nx-1]), "C05: an x outside the node range is reported as an error, an x inside is answered");
  if(sq_thrown==0){
    __CPROVER_assert(nlog==5 && lg[0].kind==K_MUL && lg[1].kind==K_MUL && lg[2].kind==K_H0 && lg[3].kind==K_EVOL && lg[4].kind==K_DOT, "C05: interpolate, evolve the operator, contract");
    SQ_XID(xid);
    __CPROVER_assert(lg[0].b==&g_rho_s[xid][nrh] && lg[1].b==&g_rho_s[xid+1][nrh] && xid+1<S.nx && S.x[xid]<=xi && xi<=S.x[xid+1], "C05: the two states are those of the nodes bracketing x");
    __CPROVER_assert(lg[0].a==&buf.state && lg[0].w==0 && lg[1].a==&buf.state && lg[1].w==1, "C05: state = f1*rho[xid] (=) then += f2*rho[xid+1]");
    __CPROVER_assert(SQ_SAME(lg[2].t,xi) && lg[2].idx==nrh, "C05: H0 is evaluated at x itself for this density matrix");
    __CPROVER_assert(lg[3].a==&buf.op && lg[3].b==lg[2].a && lg[3].c==&op && SQ_SAME(lg[3].t,S.t-S.t_ini) && lg[3].w==0, "C05: the operator is evolved by H0 over t-t_ini");
    __CPROVER_assert(lg[4].a==&buf.state && lg[4].b==&buf.op && SQ_SAME(r,lg[4].v), "C05: the result is the scalar product of the interpolated state and the evolved operator");
  } else __CPROVER_assert(nlog==0, "C05: nothing is evaluated for a rejected x");
  __CPROVER_assert(0,"REACH end of harness");
}
/* averaging overloads: the same bracketing / node, H0 at x itself (at the node's x), PrepareEvolve with (t-t_ini, scale, avr) on that H0 into a buffer sized for it,
 * the operator evolved with that buffer, result f1*Tr(op' rho_i) + f2*Tr(op' rho_{i+1}) */
void h_GetExpectationValueD_avg(void){
  struct SQuIDS S; double xi; mk_grid(&S,&xi); struct SU_vector op; struct evbuf buf; unsigned nrh=nondet_unsigned(); __CPROVER_assume(nrh<NRB);
  double scale=nondet_double(); int avr_obj; 
  double r=SQuIDS_GetExpectationValueD_avg(&S,&op,nrh,xi,&buf,scale,&avr_obj);
  __CPROVER_assert((sq_thrown==1) == (xi<S.x[0] || xi>S.x[S.nx-1]), "C05: averaging form: an x outside the node range is reported as an error, an x inside is answered");
  if(sq_thrown==0){
    __CPROVER_assert(nlog==11 && lg[0].kind==K_MUL && lg[1].kind==K_MUL && lg[2].kind==K_H0 && lg[3].kind==K_BUFSIZE && lg[4].kind==K_H0 && lg[5].kind==K_PREPAVG && lg[6].kind==K_FASTEVOL
                     && lg[7].kind==K_DOT && lg[8].kind==K_DOT && lg[9].kind==K_COMB && lg[10].kind==K_COMB, "C05: averaging form: interpolate, size the buffer, prepare, evolve, contract twice, combine");
    SQ_XID(xid);
    __CPROVER_assert(lg[0].b==&g_rho_s[xid][nrh] && lg[1].b==&g_rho_s[xid+1][nrh] && xid+1<S.nx && S.x[xid]<=xi && xi<=S.x[xid+1], "C05: averaging form: the two states are those of the nodes bracketing x");
    __CPROVER_assert(SQ_SAME(lg[2].t,xi) && lg[2].idx==nrh && lg[3].a==lg[2].a && SQ_SAME(lg[4].t,xi) && lg[4].idx==nrh, "C05: averaging form: H0 is evaluated at x itself, and the buffer is sized for it");
    __CPROVER_assert(lg[5].a==lg[4].a && lg[5].b==g_evolbuf && SQ_SAME(lg[5].t,S.t-S.t_ini) && SQ_SAME(lg[5].v,scale) && lg[5].c==&avr_obj, "C05: averaging form: PrepareEvolve(buffer, t-t_ini, scale, avr) on that H0");
    __CPROVER_assert(lg[6].a==&buf.op && lg[6].b==&op && lg[6].c==g_evolbuf && lg[6].w==0, "C05: averaging form: the operator is evolved with the prepared buffer");
    __CPROVER_assert(lg[7].a==&buf.op && lg[7].b==&g_rho_s[xid][nrh] && lg[8].a==&buf.op && lg[8].b==&g_rho_s[xid+1][nrh], "C05: averaging form: contracted with both bracketing states");
    __CPROVER_assert(SQ_SAME(lg[9].t,lg[7].v) && SQ_SAME(lg[9].v,lg[0].t) && SQ_SAME(lg[10].t,lg[8].v) && SQ_SAME(lg[10].v,lg[1].t), "C05: averaging form: result = d1*f1 + d2*f2 with the interpolation weights");
  } else __CPROVER_assert(nlog==0, "C05: averaging form: nothing is evaluated for a rejected x");
  __CPROVER_assert(0,"REACH end of harness");
}
void h_GetExpectationValue_avg(void){
  struct SQuIDS S; double xi; mk_grid(&S,&xi); struct SU_vector op; unsigned nrh=nondet_unsigned(), i=nondet_unsigned(); __CPROVER_assume(nrh<NRB && i<S.nx && i<NXB); SQ_NODE(i);
  double scale=nondet_double(); int avr_obj;
  double r=SQuIDS_GetExpectationValue_avg(&S,&op,nrh,i,scale,&avr_obj);
  __CPROVER_assert(nlog==5 && lg[0].kind==K_H0 && SQ_SAME(lg[0].t,S.x[i]) && lg[0].idx==nrh, "C05: averaging node form: H0 at that node's x");
  __CPROVER_assert(lg[1].kind==K_BUFSIZE && lg[1].a==lg[0].a && lg[2].kind==K_PREPAVG && lg[2].a==lg[0].a && lg[2].b==g_evolbuf && SQ_SAME(lg[2].t,S.t-S.t_ini) && SQ_SAME(lg[2].v,scale) && lg[2].c==&avr_obj,
                   "C05: averaging node form: buffer sized for and prepared from that H0 with (t-t_ini, scale, avr)");
  __CPROVER_assert(lg[3].kind==K_FASTEVOL && lg[3].b==&op && lg[3].c==g_evolbuf && lg[4].kind==K_DOT && lg[4].a==&g_rho_s[i][nrh] && lg[4].b==lg[3].a && SQ_SAME(r,lg[4].v),
                   "C05: averaging node form: operator evolved with the buffer and contracted with the stored state of node i");
  __CPROVER_assert(0,"REACH end of harness");
}
void h_GetExpectationValue(void){
  struct SQuIDS S; double xi; mk_grid(&S,&xi); struct SU_vector op; unsigned nrh=nondet_unsigned(), i=nondet_unsigned(); __CPROVER_assume(nrh<NRB && i<S.nx && i<NXB); SQ_NODE(i);
  double r=SQuIDS_GetExpectationValue(&S,&op,nrh,i);
  __CPROVER_assert(nlog==3 && lg[0].kind==K_H0 && SQ_SAME(lg[0].t,S.x[i]) && lg[0].idx==nrh, "C05: node form: H0 at that node's x");
  __CPROVER_assert(lg[1].kind==K_EVOL && lg[1].b==lg[0].a && lg[1].c==&op && SQ_SAME(lg[1].t,S.t-S.t_ini), "C05: operator evolved forward by H0 over t-t_ini");
  __CPROVER_assert(lg[2].kind==K_DOT && lg[2].a==&g_rho_s[i][nrh] && lg[2].b==lg[1].a && SQ_SAME(r,lg[2].v), "C05: contracted with the stored state of node i");
  __CPROVER_assert(0,"REACH end of harness");
}
void h_GetIntermediateState(void){
  struct SQuIDS S; double xi; mk_grid(&S,&xi); struct SU_vector ret; unsigned nrh=nondet_unsigned(); __CPROVER_assume(nrh<NRB);
  SQuIDS_GetIntermediateState(&S,&ret,nrh,xi);
  __CPROVER_assert((sq_thrown==1) == (xi<S.x[0] || xi>S.x[S.nx-1]), "C05: an x outside the node range is reported as an error, an x inside is answered");
  if(sq_thrown==0){
    __CPROVER_assert(nlog==1 && lg[0].kind==K_ADDRR && lg[0].a==&ret, "C05: convex combination of two states");
    SQ_XID(xid);
    __CPROVER_assert(lg[0].b==&g_rho_s[xid][nrh] && lg[0].c==&g_rho_s[xid+1][nrh] && xid+1<S.nx && S.x[xid]<=xi && xi<=S.x[xid+1], "C05: f1*rho[xid]+f2*rho[xid+1] with the nodes bracketing x");
  }
  __CPROVER_assert(0,"REACH end of harness");
}

#ifdef L2WEIGHTS
/* Layer 2 (real arithmetic): the interpolation weights.  The bracketing itself is the Layer-1 obligation above and is assumed here. */
int main(void){
  struct SQuIDS S; double xi; mk_grid(&S,&xi); struct SU_vector op, ret; struct evbuf buf; unsigned nrh=nondet_unsigned(); __CPROVER_assume(nrh<NRB);
#if L2WEIGHTS==1
  SQuIDS_GetExpectationValueD(&S,&op,nrh,xi,&buf);
  if(sq_thrown==0 && nlog>=2){ SQ_XID(xid);
    __CPROVER_assume(lg[0].b==&g_rho_s[xid][nrh] && xid+1<S.nx);
    __CPROVER_assert(lg[1].t*(S.x[xid+1]-S.x[xid])==xi-S.x[xid] && lg[0].t==1-lg[1].t, "C05: linear weights f2=(x-x_i)/(x_{i+1}-x_i), f1=1-f2 (real arithmetic)"); }
#else
  SQuIDS_GetIntermediateState(&S,&ret,nrh,xi);
  if(sq_thrown==0 && nlog>=1){ SQ_XID(xid);
    __CPROVER_assume(lg[0].b==&g_rho_s[xid][nrh] && xid+1<S.nx);
    __CPROVER_assert(lg[0].v*(S.x[xid+1]-S.x[xid])==xi-S.x[xid] && lg[0].t==1-lg[0].v, "C05: linear weights f2=(x-x_i)/(x_{i+1}-x_i), f1=1-f2 (real arithmetic)"); }
#endif
  return 0; }
#endif
