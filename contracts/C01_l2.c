/* C01 Layer 2: SU_vector <-> Hermitian matrix, element-wise algebra, Transpose/Real/Imag -- real arithmetic.
 * Parameters: D; WHAT selects the obligation group; IA = generator index for instantiations. */
#include "l2_prelude.h"
#include "gellmann.h"
#include "l2_gsl.h"
#include "SU_inc_l2/dimension.h"
#define N (D*D)
int sq_thrown;
#define SQ_THROW(...) do{ sq_thrown=1; return SQ_RET; }while(0)
#define SQ_ASSERT(e)  __CPROVER_assert((e), "assert() of the real code")
#define SQ_AXIOM(e)   __CPROVER_assert((e), "SQUIDS_COMPILER_ASSUME axiom must be true")
#define SQUIDS_POINTER_IS_ALIGNED(p,a) do{}while(0)
#define sq_filln(b,n,v) do{ for(unsigned k_=0;k_<(n);k_++) (b)[k_]=(v); }while(0)     /* std::fill(p,p+n,v) */
/* declaration forms of a local result vector: the sized constructor zero-fills; make_aligned(d,zero_fill) zero-fills iff asked */
#define SQ_NEW_SIZED(v,d)      do{ for(unsigned k_=0;k_<(d)*(d);k_++) (v)[k_]=0; }while(0)
#define SQ_NEW_ALIGNED(v,d,z)  do{ if(z) for(unsigned k_=0;k_<(d)*(d);k_++) (v)[k_]=0; }while(0)
#define true 1
#define false 0
#define KRONECKER(i,j)  ( (i)==(j) ? 1 : 0 )
#define SQ_RET
static const _Bool Aligned=0;

/* void SU_vector::GetGSLMatrix(gsl_matrix_complex*) const : members dim, components are parameters */
static void GetGSLMatrix(unsigned dim, const R* components, gsl_matrix_complex* matrix){
//@BODY file=src/SUNalg.cpp sig=/void\s+SU_vector::GetGSLMatrix\s*\(\s*gsl_matrix_complex\s*\*/ rules=common
//@SUB /#include\s+<SQuIDS\/SU_inc\/([A-Za-z0-9_]+\.txt)>/#include "SU_inc_l2\/\1"/ min=1
}
/* SU_vector::SU_vector(const gsl_matrix_complex* m) : body only (the initialiser list is Layer 1, C08/C15) */
static void ctor_matrix(unsigned dim, unsigned size, R* components, const gsl_matrix_complex* m){
//@BODY file=src/SUNalg.cpp sig=/SU_vector::SU_vector\s*\(\s*const\s+gsl_matrix_complex\s*\*\s*m\s*\)/ rules=common
//@SUB /#include\s+<SQuIDS\/SU_inc\/([A-Za-z0-9_]+\.txt)>/#include "SU_inc_l2\/\1"/ min=1
//@SUB /double\s+m_real\[dim\]\[dim\]\s*;\s*double\s+m_imag\[dim\]\[dim\]\s*;/R m_real[D][D]; R m_imag[D][D];/ min=1
//@SUB /components\s*=\s*new\s+double\s*\[\s*size\s*\]\s*;/\/* storage: provided by the harness (allocation is Layer 1) *\// min=0
}
/* ComponentsFromMatrices (factories): sq_array_2D accessors are `data[d*i+j]` (bodies of the two operator[]) */
struct sq_array_2D { unsigned d; R* data; };
static void ComponentsFromMatrices(R* components, unsigned dim, const struct sq_array_2D m_real_, const struct sq_array_2D m_imag_){
  R (*m_real)[D]=(R(*)[D])m_real_.data; R (*m_imag)[D]=(R(*)[D])m_imag_.data;   /* m[i][j] == data[d*i+j] for d==D */
//@BODY file=src/SUNalg.cpp sig=/void\s+ComponentsFromMatrices\s*\(/ rules=common
//@SUB /#include\s+<SQuIDS\/SU_inc\/([A-Za-z0-9_]+\.txt)>/#include "SU_inc_l2\/\1"/ min=1
}
struct SU_vector { unsigned dim; unsigned size; R* components; };
/* void SU_vector::Transpose() */
static void Transpose(unsigned dim, R* components){
//@BODY file=src/SUNalg.cpp sig=/void\s+SU_vector::Transpose\s*\(/ rules=common
}
/* SU_vector SU_vector::Real() const / Imag() const: `SU_vector suv(dim)` is the zero-filled result (sized ctor, C08) */
static void Real(unsigned dim, const R* components, R* suv){
//@BODY file=src/SUNalg.cpp sig=/SU_vector\s+SU_vector::Real\s*\(/ rules=common
//@SUB /SU_vector\s+suv\s*\(\s*(\w+)\s*\)\s*;/SQ_NEW_SIZED(suv,\1);/ min=0
//@SUB /SU_vector\s+suv\s*=\s*make_aligned\s*\(\s*(\w+)\s*\)\s*;/SQ_NEW_ALIGNED(suv,\1,1);/ min=0
//@SUB /SU_vector\s+suv\s*=\s*make_aligned\s*\(\s*(\w+)\s*,\s*(\w+)\s*\)\s*;/SQ_NEW_ALIGNED(suv,\1,\2);/ min=0
//@SUB /SQ_NEW_(SIZED|ALIGNED)\(suv,/SQ_NEW_\1(suv,/ min=1
//@SUB /return\s+suv\s*;/return;/ min=1
}
static void Imag(unsigned dim, const R* components, R* suv){
//@BODY file=src/SUNalg.cpp sig=/SU_vector\s+SU_vector::Imag\s*\(/ rules=common
//@SUB /SU_vector\s+suv\s*\(\s*(\w+)\s*\)\s*;/SQ_NEW_SIZED(suv,\1);/ min=0
//@SUB /SU_vector\s+suv\s*=\s*make_aligned\s*\(\s*(\w+)\s*\)\s*;/SQ_NEW_ALIGNED(suv,\1,1);/ min=0
//@SUB /SU_vector\s+suv\s*=\s*make_aligned\s*\(\s*(\w+)\s*,\s*(\w+)\s*\)\s*;/SQ_NEW_ALIGNED(suv,\1,\2);/ min=0
//@SUB /SQ_NEW_(SIZED|ALIGNED)\(suv,/SQ_NEW_\1(suv,/ min=1
//@SUB /return\s+suv\s*;/return;/ min=1
}
/* element-wise proxies (ProxyImpl.h): target is vector_wrapper<IncrementWrapper> on a zeroed vector */
struct cw { R* components; };
struct vw { unsigned dim; struct cw components; };
#define TGT(i) components.components[i]
static void add_compute(struct vw target, struct SU_vector suv1, struct SU_vector suv2){
//@BODY file=include/SQuIDS/detail/ProxyImpl.h sig=/void\s+AdditionProxy::compute\s*\(/ rules=common
//@SUB /auto\s+size\s*=/unsigned size=/ min=1
//@SUB /target\.components\[/target.TGT(/ min=2
//@SUB /target\.TGT\(([^\]]+)\]/target.TGT(\1)/ min=2
}
static void sub_compute(struct vw target, struct SU_vector suv1, struct SU_vector suv2){
//@BODY file=include/SQuIDS/detail/ProxyImpl.h sig=/void\s+SubtractionProxy::compute\s*\(/ rules=common
//@SUB /auto\s+size\s*=/unsigned size=/ min=1
//@SUB /target\.components\[/target.TGT(/ min=2
//@SUB /target\.TGT\(([^\]]+)\]/target.TGT(\1)/ min=2
}
static void neg_compute(struct vw target, struct SU_vector suv1){
//@BODY file=include/SQuIDS/detail/ProxyImpl.h sig=/void\s+NegationProxy::compute\s*\(/ rules=common
//@SUB /auto\s+size\s*=/unsigned size=/ min=1
//@SUB /target\.components\[/target.TGT(/ min=2
//@SUB /target\.TGT\(([^\]]+)\]/target.TGT(\1)/ min=2
}
static void mul_compute(struct vw target, struct SU_vector suv1, R a){
//@BODY file=include/SQuIDS/detail/ProxyImpl.h sig=/void\s+MultiplicationProxy::compute\s*\(/ rules=common
//@SUB /auto\s+size\s*=/unsigned size=/ min=1
//@SUB /target\.components\[/target.TGT(/ min=2
//@SUB /target\.TGT\(([^\]]+)\]/target.TGT(\1)/ min=2
}
/* compound assignment: members of *this are parameters, `other` by pointer */
static void op_pluseq(unsigned size, R* components, const struct SU_vector* other){
//@BODY file=src/SUNalg.cpp sig=/SU_vector&\s*SU_vector::operator\s*\+=\s*\(/ rules=common
//@SUB /other\./other->/ min=2
//@SUB /return\s+\*this\s*;/return;/ min=1
}
static void op_minuseq(unsigned size, R* components, const struct SU_vector* other){
//@BODY file=src/SUNalg.cpp sig=/SU_vector&\s*SU_vector::operator\s*-=\s*\(/ rules=common
//@SUB /other\./other->/ min=2
//@SUB /return\s+\*this\s*;/return;/ min=1
}
static void op_timeseq(unsigned size, R* components, R x){
//@BODY file=src/SUNalg.cpp sig=/SU_vector&\s*SU_vector::operator\s*\*=\s*\(/ rules=common
//@SUB /return\s+\*this\s*;/return;/ min=1
}
static void op_diveq(unsigned size, R* components, R x){
//@BODY file=src/SUNalg.cpp sig=/SU_vector&\s*SU_vector::operator\s*\/=\s*\(/ rules=common
//@SUB /return\s+\*this\s*;/return;/ min=1
}

R in_x;
int main(void){
  L2_SYMBOLS();
  R a[N], b[N], c[N], mdat[2*D*D], mdat2[2*D*D];
  in_x=nondet_R();
  for(int i=0;i<N;i++){
#ifdef IA
    a[i]=(i==IA)?1.0:0.0;
#else
    a[i]=nondet_R();
#endif
    b[i]=nondet_R(); c[i]=0; }
  for(int i=0;i<2*D*D;i++){ mdat[i]=nondet_R(); mdat2[i]=nondet_R(); }
  gsl_matrix_complex GM={D,D,D,mdat}, GM2={D,D,D,mdat2};
  struct SU_vector A={D,N,a}, B={D,N,b};
  struct vw C={D,{c}};
  sq_thrown=0;
#if WHAT==1   /* SUToMatrix: matrix == M(components), hence Hermitian */
  GetGSLMatrix(D,a,&GM);
  struct mat MA=toMatrix(a);
  for(int i=0;i<D;i++) for(int j=0;j<D;j++){
    __CPROVER_assert(GSL_REAL(gsl_matrix_complex_get(&GM,i,j))==MA.re[i][j], "tomatrix.re");
    __CPROVER_assert(GSL_IMAG(gsl_matrix_complex_get(&GM,i,j))==MA.im[i][j], "tomatrix.im");
    __CPROVER_assert(MA.re[i][j]==MA.re[j][i] && MA.im[i][j]==-MA.im[j][i], "M(c) is Hermitian (spec)");
  }
#elif WHAT==2 || WHAT==3 /* MatrixToSU: for Hermitian H, components == Phi(H)   (2: matrix ctor, 3: ComponentsFromMatrices) */
  struct mat H;
  for(int i=0;i<D;i++){ H.re[i][i]=nondet_R(); H.im[i][i]=0; for(int j=i+1;j<D;j++){ H.re[i][j]=nondet_R(); H.im[i][j]=nondet_R(); H.re[j][i]=H.re[i][j]; H.im[j][i]=-H.im[i][j]; } }
  R phi[N]; fromMatrix(&H,phi);
#if WHAT==2
  for(int i=0;i<D;i++) for(int j=0;j<D;j++){ gsl_complex z={{H.re[i][j],H.im[i][j]}}; gsl_matrix_complex_set(&GM,i,j,z); }
  for(int i=0;i<N;i++) c[i]=nondet_R();            /* storage from new double[size]: arbitrary contents */
  ctor_matrix(D,N,c,&GM);
#else
  R mr[D*D], mi[D*D];
  for(int i=0;i<D;i++) for(int j=0;j<D;j++){ mr[D*i+j]=H.re[i][j]; mi[D*i+j]=H.im[i][j]; }
  struct sq_array_2D ar={D,mr}, ai={D,mi};
  ComponentsFromMatrices(c,D,ar,ai);               /* callers pass a zero-filled target (Layer 1, C13) */
#endif
  for(int i=0;i<N;i++) __CPROVER_assert(c[i]==phi[i], "frommatrix");
#elif WHAT==4 /* round trip vector -> matrix -> vector on generator IA (linear maps: generators + linearity) */
  GetGSLMatrix(D,a,&GM);
  for(int i=0;i<N;i++) c[i]=nondet_R();
  ctor_matrix(D,N,c,&GM);
  for(int i=0;i<N;i++) __CPROVER_assert(c[i]==a[i], "roundtrip.vector");
#elif WHAT==5 /* linearity of GetGSLMatrix and of the matrix ctor in their input */
  R as[N]; for(int i=0;i<N;i++) as[i]=a[i]+in_x*b[i];
  R m1[2*D*D], m2[2*D*D], m3[2*D*D];
  gsl_matrix_complex G1={D,D,D,m1}, G2={D,D,D,m2}, G3={D,D,D,m3};
  GetGSLMatrix(D,a,&G1); GetGSLMatrix(D,b,&G2); GetGSLMatrix(D,as,&G3);
  for(int i=0;i<2*D*D;i++) __CPROVER_assert(m3[i]==m1[i]+in_x*m2[i], "tomatrix.linear");
  for(int i=0;i<2*D*D;i++) m3[i]=mdat[i]+in_x*mdat2[i];
  R c1[N], c2[N], c3[N];
  ctor_matrix(D,N,c1,&GM); ctor_matrix(D,N,c2,&GM2); ctor_matrix(D,N,c3,&G3);
  for(int i=0;i<N;i++) __CPROVER_assert(c3[i]==c1[i]+in_x*c2[i], "frommatrix.linear");
#elif WHAT==6 /* Transpose: M(c') == M(c)^T */
  struct mat M0=toMatrix(a);
  Transpose(D,a);
  struct mat M1=toMatrix(a);
  for(int i=0;i<D;i++) for(int j=0;j<D;j++){ __CPROVER_assert(M1.re[i][j]==M0.re[j][i], "transpose.re"); __CPROVER_assert(M1.im[i][j]==M0.im[j][i], "transpose.im"); }
#elif WHAT==7 /* Real/Imag: M(Real v)=Re M(v), M(Imag v)= i Im M(v), Real+Imag=v */
  R re[N], im[N]; for(int i=0;i<N;i++){ re[i]=nondet_R(); im[i]=nondet_R(); }   /* fresh storage: arbitrary contents */
  struct mat M0=toMatrix(a);
  Real(D,a,re); Imag(D,a,im);
  struct mat MR=toMatrix(re), MI=toMatrix(im);
  for(int i=0;i<D;i++) for(int j=0;j<D;j++){
    __CPROVER_assert(MR.re[i][j]==M0.re[i][j] && MR.im[i][j]==0, "real");
    __CPROVER_assert(MI.re[i][j]==0 && MI.im[i][j]==M0.im[i][j], "imag");
  }
  for(int i=0;i<N;i++) __CPROVER_assert(re[i]+im[i]==a[i], "real+imag");
#elif WHAT==8 /* element-wise proxies and compound assignment */
  R s[N], t[N], u[N], v[N]; for(int i=0;i<N;i++){ s[i]=0; t[i]=0; u[i]=0; v[i]=0; }
  struct vw S={D,{s}}, T={D,{t}}, U={D,{u}}, V={D,{v}};
  add_compute(S,A,B); sub_compute(T,A,B); neg_compute(U,A); mul_compute(V,A,in_x);
  for(int i=0;i<N;i++){
    __CPROVER_assert(s[i]==a[i]+b[i], "addition");   __CPROVER_assert(t[i]==a[i]-b[i], "subtraction");
    __CPROVER_assert(u[i]==-a[i], "negation");        __CPROVER_assert(v[i]==in_x*a[i], "scalar multiplication");
  }
  R p[N], q[N], r[N], w[N]; for(int i=0;i<N;i++){ p[i]=a[i]; q[i]=a[i]; r[i]=a[i]; w[i]=a[i]; }
  op_pluseq(N,p,&B); op_minuseq(N,q,&B); op_timeseq(N,r,in_x); op_diveq(N,w,in_x);
  for(int i=0;i<N;i++){
    __CPROVER_assert(p[i]==a[i]+b[i], "+=");  __CPROVER_assert(q[i]==a[i]-b[i], "-=");
    __CPROVER_assert(r[i]==a[i]*in_x, "*=");  __CPROVER_assert(w[i]==a[i]/in_x, "/=");
  }
#endif
  __CPROVER_assert(sq_thrown==0, "no exception for supported dimension");
  return 0;
}
