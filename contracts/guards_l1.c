/* C14 Layer 1: the dimension guards of every binary entry point that builds an expression proxy or combines two vectors
 * (SUNalg.h:453-455, 579-698, 833-914).  Contract of each: an exception is raised iff the two dimensions differ, nothing is
 * assigned before it (frame: only the result proxy and the exception flag), and otherwise the proxy names exactly the documented
 * operands and move flags.  The kernels' own precondition "all operands have the target's dimension" is an obligation at the
 * call sites of Proxy::compute (proxy_l1.c), so an unguarded entry point cannot hide. */
#include "su_l1.h"
#undef SQ_RET
#define SQ_RET
#define SQ_Arg1Movable 1
#define SQ_Arg2Movable 2
enum { F_Evolution=0, F_FastEvolution, F_Addition, F_Subtraction, F_Negation, F_Multiplication, F_iCommutator, F_ACommutator, F_BinaryElementwiseOp };
struct proxy { const struct SU_vector* suv1; const struct SU_vector* suv2; int flags; int family; double scalar; const double* coefficients; };
#define MK3(ret,F,a,b,f) do{ (ret)->suv1=&(a); (ret)->suv2=&(b); (ret)->flags=(f); (ret)->family=(F); }while(0)
#define SEL(_1,_2,_3,N,...) N
#define SQ_MKPROXY_AdditionProxy(ret,...)        SEL(__VA_ARGS__,ADD3,ADD2,x)(ret,__VA_ARGS__)
#define ADD2(ret,a,b)     MK3(ret,F_Addition,a,b,0)
#define ADD3(ret,a,b,f)   MK3(ret,F_Addition,a,b,f)
#define SQ_MKPROXY_SubtractionProxy(ret,...)     SEL(__VA_ARGS__,SUB3,SUB2,x)(ret,__VA_ARGS__)
#define SUB2(ret,a,b)     MK3(ret,F_Subtraction,a,b,0)
#define SUB3(ret,a,b,f)   MK3(ret,F_Subtraction,a,b,f)
#define SQ_MKPROXY_iCommutatorProxy(ret,a,b)     MK3(ret,F_iCommutator,a,b,0)
#define SQ_MKPROXY_ACommutatorProxy(ret,a,b)     MK3(ret,F_ACommutator,a,b,0)
#define SQ_MKPROXY_EvolutionProxy(ret,a,b,t)     do{ MK3(ret,F_Evolution,a,b,0); (ret)->scalar=(t); }while(0)
#define SQ_MKPROXY_BinaryElementwiseOpProxy(ret,...) SEL(__VA_ARGS__,BEO4,x,x)(ret,__VA_ARGS__)
#define SEL4(_1,_2,_3,_4,N,...) N
#undef SQ_MKPROXY_BinaryElementwiseOpProxy
#define SQ_MKPROXY_BinaryElementwiseOpProxy(ret,...) SEL4(__VA_ARGS__,BEO4,BEO3,x,x)(ret,__VA_ARGS__)
#define BEO3(ret,op,a,b)   MK3(ret,F_BinaryElementwiseOp,a,b,0)
#define BEO4(ret,op,a,b,f) MK3(ret,F_BinaryElementwiseOp,a,b,f)
static const int op=0;   /* the user functor of ElementwiseOperation (opaque) */

#define GUARD_CONTRACT(A,B,FIELD,S1,S2,FL,FAM) \
__CPROVER_requires(__CPROVER_w_ok(ret,sizeof(*ret)) && __CPROVER_r_ok(A,sizeof(*A)) && __CPROVER_r_ok(B,sizeof(*B)) && sq_thrown==0) \
__CPROVER_assigns(*ret, sq_thrown) \
__CPROVER_ensures(sq_thrown==0 || sq_thrown==1) \
__CPROVER_ensures((sq_thrown==1) == (A->FIELD!=B->FIELD))                 /* C14: mismatched dimensions are rejected */ \
__CPROVER_ensures(sq_thrown==0 ==> (ret->suv1==S1 && ret->suv2==S2 && ret->flags==(FL) && ret->family==(FAM)))

/* operator+ : const& + const& | const& + && | && + const& | && + && */
void op_plus_0(struct proxy* ret, const struct SU_vector* self, const struct SU_vector* other) GUARD_CONTRACT(self,other,size,self,other,0,F_Addition)
{
//@BODY file=include/SQuIDS/SUNalg.h sig=/detail::AdditionProxy\s+operator\+\s*\(/ nth=0 rules=common,guards,suv_method
}
void op_plus_1(struct proxy* ret, const struct SU_vector* self, const struct SU_vector* other) GUARD_CONTRACT(self,other,size,other,self,1,F_Addition)
{
//@BODY file=include/SQuIDS/SUNalg.h sig=/detail::AdditionProxy\s+operator\+\s*\(/ nth=1 rules=common,guards,suv_method
}
void op_plus_2(struct proxy* ret, const struct SU_vector* self, const struct SU_vector* other) GUARD_CONTRACT(self,other,size,self,other,1,F_Addition)
{
//@BODY file=include/SQuIDS/SUNalg.h sig=/detail::AdditionProxy\s+operator\+\s*\(/ nth=2 rules=common,guards,suv_method
}
void op_plus_3(struct proxy* ret, const struct SU_vector* self, const struct SU_vector* other) GUARD_CONTRACT(self,other,size,self,other,3,F_Addition)
{
//@BODY file=include/SQuIDS/SUNalg.h sig=/detail::AdditionProxy\s+operator\+\s*\(/ nth=3 rules=common,guards,suv_method
}
void op_minus_0(struct proxy* ret, const struct SU_vector* self, const struct SU_vector* other) GUARD_CONTRACT(self,other,size,self,other,0,F_Subtraction)
{
//@BODY file=include/SQuIDS/SUNalg.h sig=/detail::SubtractionProxy\s+operator\s*-\s*\(\s*const\s+SU_vector&/ nth=0 rules=common,guards,suv_method
}
void op_minus_1(struct proxy* ret, const struct SU_vector* self, const struct SU_vector* other) GUARD_CONTRACT(self,other,size,self,other,1,F_Subtraction)
{
//@BODY file=include/SQuIDS/SUNalg.h sig=/detail::SubtractionProxy\s+operator\s*-\s*\(\s*const\s+SU_vector&/ nth=1 rules=common,guards,suv_method
}
/* free functions iCommutator / ACommutator / ElementwiseOperation x4 */
void f_iCommutator(struct proxy* ret, const struct SU_vector* suv1, const struct SU_vector* suv2) GUARD_CONTRACT(suv1,suv2,dim,suv1,suv2,0,F_iCommutator)
{
//@BODY file=include/SQuIDS/SUNalg.h sig=/detail::iCommutatorProxy\s+iCommutator\s*\(/ rules=common,guards
}
void f_ACommutator(struct proxy* ret, const struct SU_vector* suv1, const struct SU_vector* suv2) GUARD_CONTRACT(suv1,suv2,dim,suv1,suv2,0,F_ACommutator)
{
//@BODY file=include/SQuIDS/SUNalg.h sig=/detail::ACommutatorProxy\s+ACommutator\s*\(/ rules=common,guards
}
void f_Elementwise_0(struct proxy* ret, const struct SU_vector* suv1, const struct SU_vector* suv2) GUARD_CONTRACT(suv1,suv2,dim,suv1,suv2,0,F_BinaryElementwiseOp)
{
//@BODY file=include/SQuIDS/SUNalg.h sig=/detail::BinaryElementwiseOpProxy<Op>\s+ElementwiseOperation\s*\(/ nth=0 rules=common,guards
}
void f_Elementwise_1(struct proxy* ret, const struct SU_vector* suv1, const struct SU_vector* suv2) GUARD_CONTRACT(suv1,suv2,dim,suv1,suv2,1,F_BinaryElementwiseOp)
{
//@BODY file=include/SQuIDS/SUNalg.h sig=/detail::BinaryElementwiseOpProxy<Op>\s+ElementwiseOperation\s*\(/ nth=1 rules=common,guards
}
void f_Elementwise_2(struct proxy* ret, const struct SU_vector* suv1, const struct SU_vector* suv2) GUARD_CONTRACT(suv1,suv2,dim,suv1,suv2,2,F_BinaryElementwiseOp)
{
//@BODY file=include/SQuIDS/SUNalg.h sig=/detail::BinaryElementwiseOpProxy<Op>\s+ElementwiseOperation\s*\(/ nth=2 rules=common,guards
}
void f_Elementwise_3(struct proxy* ret, const struct SU_vector* suv1, const struct SU_vector* suv2) GUARD_CONTRACT(suv1,suv2,dim,suv1,suv2,3,F_BinaryElementwiseOp)
{
//@BODY file=include/SQuIDS/SUNalg.h sig=/detail::BinaryElementwiseOpProxy<Op>\s+ElementwiseOperation\s*\(/ nth=3 rules=common,guards
}
/* SU_vector::Evolve(const SU_vector& op, double time) const: time evolution by an operator -- proxy {op, *this, time} */
void m_Evolve(struct proxy* ret, const struct SU_vector* self, const struct SU_vector* op_, double time) GUARD_CONTRACT(self,op_,dim,op_,self,0,F_Evolution)
{
//@BODY file=include/SQuIDS/SUNalg.h sig=/detail::EvolutionProxy\s+Evolve\s*\(\s*const\s+SU_vector&\s*op/ rules=common,guards,suv_method
//@SUB /EvolutionProxy\s*\{\s*op\s*,/EvolutionProxy{(*op_),/ min=1
//@SUB /\bop\.(dim|size)\b/op_->\1/ min=0
}
/* scalar product: double operator*(const SU_vector&) const -- guard, then SUTrace (value: Layer 2, C02) */
double sq_SUTrace(const struct SU_vector* a, const struct SU_vector* b)
__CPROVER_requires(a->size==b->size && a->size>1)          /* SUTrace's SQUIDS_COMPILER_ASSUME(size>1) must hold at the call */
__CPROVER_assigns()
;
#undef SQ_RET
#define SQ_RET 0.0
double op_dot(const struct SU_vector* self, const struct SU_vector* other)
__CPROVER_requires(__CPROVER_r_ok(self,sizeof(*self)) && __CPROVER_r_ok(other,sizeof(*other)) && sq_thrown==0 && SU_VALID_PURE(self) && SU_VALID_PURE(other))
__CPROVER_requires((self->isinit||self->isinit_d) && self->dim>=2)   /* scalar products of empty or dimension-0 vectors are outside the property (they reach SQUIDS_COMPILER_ASSUME(size>1): recorded observation) */
__CPROVER_assigns(sq_thrown)
__CPROVER_ensures((sq_thrown==1) == (self->size!=other->size))
{
//@BODY file=include/SQuIDS/SUNalg.h sig=/double\s+operator\*\s*\(\s*const\s+SU_vector&\s*other\s*\)/ rules=common,guards,suv_method
//@SUB /SUTrace<>\s*\(\s*\*this\s*,\s*other\s*\)/sq_SUTrace(self,other)/ min=1
}

/* ---- every binary operator+ / operator- overload found in SUNalg.h (generated per overload by props/suvfam.py: @@..@@ are filled in) ----
 * Generic contract from the overload's own signature: rejection exactly for mismatched sizes; the proxy's operands are (this, other) -- for the commutative
 * sum also (other, this) -- and an operand is flagged movable only if the signature takes it as an rvalue (THIS_RV: `&&`-qualified, OTHER_RV: SU_vector&&). */
#ifdef GEN_OVERLOAD
void op_generic(struct proxy* ret, const struct SU_vector* self, const struct SU_vector* other)
__CPROVER_requires(__CPROVER_w_ok(ret,sizeof(*ret)) && __CPROVER_r_ok(self,sizeof(*self)) && __CPROVER_r_ok(other,sizeof(*other)) && sq_thrown==0)
__CPROVER_assigns(*ret, sq_thrown)
__CPROVER_ensures(sq_thrown==0 || sq_thrown==1)
__CPROVER_ensures((sq_thrown==1) == (self->size!=other->size))                 /* C14: mismatched dimensions are rejected */
__CPROVER_ensures(sq_thrown==0 ==> ret->family==GEN_FAMILY)
__CPROVER_ensures(sq_thrown==0 ==> ((ret->suv1==self && ret->suv2==other && ((ret->flags&SQ_Arg1Movable)==0 || THIS_RV) && ((ret->flags&SQ_Arg2Movable)==0 || OTHER_RV) && (ret->flags&~3)==0)
                                 || (GEN_COMMUTATIVE && ret->suv1==other && ret->suv2==self && ((ret->flags&SQ_Arg1Movable)==0 || OTHER_RV) && ((ret->flags&SQ_Arg2Movable)==0 || THIS_RV) && (ret->flags&~3)==0)))
{
//@BODY file=include/SQuIDS/SUNalg.h sig=/@@SIG@@/ nth=@@NTH@@ rules=common,guards,suv_method
}
void h_op_generic(void){ struct proxy r; struct SU_vector a,b; sq_thrown=0; op_generic(&r,&a,&b); __CPROVER_assert(0,"REACH end of harness"); }
#endif
#define HG(f) void h_##f(void){ struct proxy r; struct SU_vector a,b; sq_thrown=0; f(&r,&a,&b); __CPROVER_assert(0,"REACH end of harness"); }
HG(op_plus_0) HG(op_plus_1) HG(op_plus_2) HG(op_plus_3) HG(op_minus_0) HG(op_minus_1) HG(f_iCommutator) HG(f_ACommutator)
HG(f_Elementwise_0) HG(f_Elementwise_1) HG(f_Elementwise_2) HG(f_Elementwise_3)
void h_m_Evolve(void){ struct proxy r; struct SU_vector a,b; double t; sq_thrown=0; m_Evolve(&r,&a,&b,t); __CPROVER_assert(0,"REACH end of harness"); }
void h_op_dot(void){ struct SU_vector a,b; sq_thrown=0; op_dot(&a,&b); __CPROVER_assert(0,"REACH end of harness"); }
