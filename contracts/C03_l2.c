/* C03 Layer 2: EvolutionProxy::compute (EvolutionSU{d}.txt), SU_vector::PrepareEvolve(buffer,t) (PreSinCosEvolSU{d}.txt),
 * FastEvolutionProxy::compute (SinCosEvolSU{d}.txt).
 * Postcondition from the property: for H diagonal with levels h_j = M(H)_jj,
 *     M(out)_jk = e^{i(h_j-h_k)t} M(A)_jk   (i.e. out represents exp(iHt) A exp(-iHt)),
 * the two-step form equals the direct form, and t=0 is the identity.
 * Parameters: D, WHAT (1 direct vs spec, 2 two-step vs direct, 3 t=0 identity for both forms). */
#include "l2_prelude.h"
#include "gellmann.h"
#include "SU_inc_l2/dimension.h"
#define N (D*D)
int sq_thrown;
#define SQ_THROW(...) do{ sq_thrown=1; return SQ_RET; }while(0)
#define SQ_RET
struct SU_vector { unsigned dim; unsigned size; R* components; };
struct vw { unsigned dim; R* components; };
static size_t GetEvolveBufferSize(const struct SU_vector* self){
//@BODY file=include/SQuIDS/SUNalg.h sig=/size_t\s+GetEvolveBufferSize\s*\(/ rules=common
//@SUB /return\s*\(\s*dim\s*\*\s*\(\s*dim\s*-\s*1\s*\)\s*\)\s*;/return(self->dim*(self->dim-1));/ min=1
}
/* EvolutionProxy{op,state,t}: suv1 = evolution operator, suv2 = evolved vector */
static void evol_compute(struct vw target, struct SU_vector suv1, struct SU_vector suv2, R t){
//@BODY file=include/SQuIDS/detail/ProxyImpl.h sig=/void\s+EvolutionProxy::compute\s*\(/ rules=common
//@SUB /auto&\s*suv_new\s*=\s*target\s*;/struct vw suv_new=target;/ min=1
//@SUB /#include\s+"\.\.\/SU_inc\/([A-Za-z0-9_]+\.txt)"/#include "SU_inc_l2\/\1"/ min=1
}
/* FastEvolutionProxy{state,buffer}: suv1 = suv2 = evolved vector */
static void fastevol_compute(struct vw target, struct SU_vector suv1_, struct SU_vector suv2, const R* coefficients){
  const struct SU_vector* suv1p=&suv1_;
//@BODY file=include/SQuIDS/detail/ProxyImpl.h sig=/void\s+FastEvolutionProxy::compute\s*\(/ rules=common
//@SUB /auto&\s*suv3\s*=\s*target\s*;/struct vw suv3=target;/ min=1
//@SUB /suv1\.GetEvolveBufferSize\(\)/GetEvolveBufferSize(suv1p)/ min=1
//@SUB /const\s+double\*/const R*/ min=2
//@SUB /#include\s+"\.\.\/SU_inc\/([A-Za-z0-9_]+\.txt)"/#include "SU_inc_l2\/\1"/ min=1
}
/* void SU_vector::PrepareEvolve(double* buffer, double t) const : *this is the operator (suv1) */
static void PrepareEvolve(const struct SU_vector* self, unsigned dim, R* buffer, R t){
//@BODY file=include/SQuIDS/SUNalg.h sig=/void\s+PrepareEvolve\s*\(\s*double\s*\*\s*buffer\s*,\s*double\s+t\s*\)/ rules=common
//@SUB /auto&\s*suv1\s*=\s*\*this\s*;/const struct SU_vector suv1=*self;/ min=1
//@SUB /GetEvolveBufferSize\(\)/GetEvolveBufferSize(self)/ min=1
//@SUB /double\s*\*\s*(CX|SX)\s*=/R* \1=/ min=2
//@SUB /double\s+term\s*;/R term;/ min=1
//@SUB /#include\s+"SU_inc\/([A-Za-z0-9_]+\.txt)"/#include "SU_inc_l2\/\1"/ min=1
}

R in_t;
int main(void){
  L2_SYMBOLS();
  in_t=nondet_R();
#if WHAT==3
  in_t=0.0;
#endif
  R h[N], a[N], c[N], c2[N], buf[D*(D-1)];
  for(int i=0;i<N;i++){ h[i]=0; c[i]=0; c2[i]=0;
#ifdef IA
    a[i]=(i==IA)?1.0:0.0;
#else
    a[i]=nondet_R();
#endif
  }
  h[0]=nondet_R(); for(int k=1;k<D;k++) h[D*k+k]=nondet_R();     /* H diagonal in the current basis */
  for(int i=0;i<D*(D-1);i++) buf[i]=nondet_R();
  struct SU_vector H={D,N,h}, A={D,N,a};
  struct vw C={D,c}, C2={D,c2};
  sq_thrown=0;
  evol_compute(C,H,A,in_t);
#if WHAT==4   /* linearity in the evolved vector (both forms) */
  { R a2[N], as[N], d1[N], d2[N], d3[N], e1[N], e2[N], e3[N]; R lam=nondet_R();
    for(int i=0;i<N;i++){ a2[i]=nondet_R(); as[i]=a[i]+lam*a2[i]; d1[i]=0;d2[i]=0;d3[i]=0;e1[i]=0;e2[i]=0;e3[i]=0; }
    struct SU_vector A2={D,N,a2}, AS={D,N,as};
    struct vw D1={D,d1},D2={D,d2},D3={D,d3},E1={D,e1},E2={D,e2},E3={D,e3};
    evol_compute(D1,H,A,in_t); evol_compute(D2,H,A2,in_t); evol_compute(D3,H,AS,in_t);
    fastevol_compute(E1,A,A,buf); fastevol_compute(E2,A2,A2,buf); fastevol_compute(E3,AS,AS,buf);
    for(int i=0;i<N;i++){ __CPROVER_assert(d3[i]==d1[i]+lam*d2[i], "direct form linear in the vector"); __CPROVER_assert(e3[i]==e1[i]+lam*e2[i], "two-step form linear in the vector"); }
  }
#elif WHAT==1
  struct mat MH=toMatrix(h), MA=toMatrix(a), MC=toMatrix(c), E;
  for(int j=0;j<D;j++){ E.re[j][j]=MA.re[j][j]; E.im[j][j]=MA.im[j][j]; }
  for(int j=0;j<D;j++) for(int k=j+1;k<D;k++){
    R th=(MH.re[j][j]-MH.re[k][k])*in_t, co=cos(th), si=sin(th);
    E.re[j][k]=MA.re[j][k]*co-MA.im[j][k]*si;  E.im[j][k]=MA.re[j][k]*si+MA.im[j][k]*co;    /* e^{i th}(x+iy) */
    E.re[k][j]=E.re[j][k];                      E.im[k][j]=-E.im[j][k];
  }
  MAT_ASSERT_EQ(MC,E,"evolution");
#elif WHAT==2
  PrepareEvolve(&H,D,buf,in_t);
  fastevol_compute(C2,A,A,buf);
  for(int i=0;i<N;i++) __CPROVER_assert(c2[i]==c[i], "two-step form equals direct form");
#else
  PrepareEvolve(&H,D,buf,in_t);
  fastevol_compute(C2,A,A,buf);
  for(int i=0;i<N;i++){ __CPROVER_assert(c[i]==a[i], "t=0 identity (direct)"); __CPROVER_assert(c2[i]==a[i], "t=0 identity (two-step)"); }
#endif
  __CPROVER_assert(sq_thrown==0, "no exception for supported dimension");
  return 0;
}
