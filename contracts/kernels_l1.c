/* C09 Layer 1, kernel side: every Proxy::compute (ProxyImpl.h) with its generated kernel writes each of the dim^2 target
 * components EXACTLY ONCE through the wrapper, writes nothing else, leaves its operands alone, and touches the target only
 * through the wrapper (so in `=` mode the result cannot depend on what the target held before).  With that, fused
 * evaluation with wrapper W equals  target[k] = W(old target[k], value[k])  where value is the Layer-2 postcondition.
 * Parameters: D (dimension), FAM (operation family 0..8); the wrapper mode is symbolic.
 * R2: `(X) . components[K]+=E;` -> SQ_ACC(X,K,E) so that the store goes through the extracted wrapper bodies. */
#include "sq_prelude.h"
#include <stddef.h>
#undef SQ_RET
#define SQ_RET
#define N (D*D)
/* values are irrelevant to the obligations of this file: libm calls are the identity here (uninterpreted functions would add an
 * Ackermann constraint per pair of the ~850 sqrt calls of an SU(6) kernel) */
#define sin(x) (x)
#define cos(x) (x)
#define sqrt(x) (x)
#define SQUIDS_POINTER_IS_ALIGNED(p,a) do{}while(0)
static const _Bool Aligned=0;
struct SU_vector { unsigned dim; unsigned size; double components[N]; };   /* operands by value with an array member: reads are plain array indexing (bounds-checked), no pointer dereference encoding */
struct cw { double* components; };
struct vw { unsigned dim; struct cw components; };           /* detail::vector_wrapper<W> */
int wmode;                                                      /* 0 AssignWrapper, 1 IncrementWrapper, 2 DecrementWrapper */
unsigned wcount[N]; double* wbase;                              /* ghost: writes per component */

/* the three wrapper bodies `double& operator+=(double nv)` of ProxyFwd.h:113-143 */
static void w_assign(double* v, double nv){
//@BODY file=include/SQuIDS/detail/ProxyFwd.h sig=/double&\s+operator\+=\s*\(\s*double\s+nv\s*\)/ nth=0 rules=common
//@SUB /return\s*\(\s*\*v\s*\)\s*;/return;/ min=1
}
static void w_incr(double* v, double nv){
//@BODY file=include/SQuIDS/detail/ProxyFwd.h sig=/double&\s+operator\+=\s*\(\s*double\s+nv\s*\)/ nth=1 rules=common
//@SUB /return\s*\(\s*\*v\s*\)\s*;/return;/ min=1
}
static void w_decr(double* v, double nv){
//@BODY file=include/SQuIDS/detail/ProxyFwd.h sig=/double&\s+operator\+=\s*\(\s*double\s+nv\s*\)/ nth=2 rules=common
//@SUB /return\s*\(\s*\*v\s*\)\s*;/return;/ min=1
}
/* component_wrapper::operator[](i) yields Wrapper{components+i}; `+=` on it is one of the bodies above.
 * (base,k) instead of base+k: the ghost counter index is k plus the distance of `base` from the start of the target, which is 0
 * unless the element-wise kernels have bumped the pointer -- this keeps 64-bit pointer-difference dividers out of the SAT problem) */
static void sq_acc(double* base, unsigned k, double nv){
  size_t off = (base==wbase) ? 0 : (size_t)(base-wbase);
  __CPROVER_assert(__CPROVER_same_object(base,wbase) && base>=wbase && off+k<N, "kernel writes inside the target");
  wcount[off+k]++;
  double* p=base+k;
  if(wmode==0) w_assign(p,nv); else if(wmode==1) w_incr(p,nv); else w_decr(p,nv);
}
/* the VALUE stored is Layer 2's business: here E is evaluated (so that every operand read is bounds-checked) and then replaced by an
 * arbitrary double, which keeps ~2000 bit-precise FP multipliers per kernel out of the SAT problem (data independence of the obligations below) */
#define SQ_ACC(X,K,E) do{ double nv_=(E); (void)nv_; sq_acc((X).components.components,(K),nondet_double()); }while(0)

double kt; const double* kcoef; double ka;                     /* scalar members of the proxies */
double __CPROVER_uninterpreted_userop(double,double);
#define user_op(x,y) __CPROVER_uninterpreted_userop(x,y)                      /* BinaryElementwiseOpProxy<Op>::op: any pure function */
static size_t GetEvolveBufferSize(const struct SU_vector* self){ return self->dim*(self->dim-1); }

static void compute(struct vw target, struct SU_vector suv1, struct SU_vector suv2){
#if FAM==0
  double t=kt;
//@BODY file=include/SQuIDS/detail/ProxyImpl.h sig=/void\s+EvolutionProxy::compute\s*\(/ rules=common,r2
//@SUB /auto&\s*suv_new\s*=\s*target\s*;/struct vw suv_new=target;/ min=1
//@SUB /#include\s+"\.\.\/SU_inc\/([A-Za-z0-9_]+\.txt)"/#include "SU_inc_l1\/\1"/ min=1
#elif FAM==1
  const double* coefficients=kcoef;
//@BODY file=include/SQuIDS/detail/ProxyImpl.h sig=/void\s+FastEvolutionProxy::compute\s*\(/ rules=common,r2
//@SUB /auto&\s*suv3\s*=\s*target\s*;/struct vw suv3=target;/ min=1
//@SUB /suv1\.GetEvolveBufferSize\(\)/GetEvolveBufferSize(&suv1)/ min=1
//@SUB /#include\s+"\.\.\/SU_inc\/([A-Za-z0-9_]+\.txt)"/#include "SU_inc_l1\/\1"/ min=1
#elif FAM==2
//@BODY file=include/SQuIDS/detail/ProxyImpl.h sig=/void\s+AdditionProxy::compute\s*\(/ rules=common,r2
//@SUB /auto\s+size\s*=/unsigned size=/ min=1
#elif FAM==3
//@BODY file=include/SQuIDS/detail/ProxyImpl.h sig=/void\s+SubtractionProxy::compute\s*\(/ rules=common,r2
//@SUB /auto\s+size\s*=/unsigned size=/ min=1
#elif FAM==4
//@BODY file=include/SQuIDS/detail/ProxyImpl.h sig=/void\s+NegationProxy::compute\s*\(/ rules=common,r2
//@SUB /auto\s+size\s*=/unsigned size=/ min=1
#elif FAM==5
  double a=ka;
//@BODY file=include/SQuIDS/detail/ProxyImpl.h sig=/void\s+MultiplicationProxy::compute\s*\(/ rules=common,r2
//@SUB /auto\s+size\s*=/unsigned size=/ min=1
#elif FAM==6
  struct vw suv_new=target;
//@BODY file=include/SQuIDS/detail/ProxyImpl.h sig=/void\s+iCommutatorProxy::compute\s*\(/ rules=common,r2
//@SUB /#include\s+"\.\.\/SU_inc\/([A-Za-z0-9_]+\.txt)"/#include "SU_inc_l1\/\1"/ min=1
#elif FAM==7
  struct vw suv_new=target;
//@BODY file=include/SQuIDS/detail/ProxyImpl.h sig=/void\s+ACommutatorProxy::compute\s*\(/ rules=common,r2
//@SUB /#include\s+"\.\.\/SU_inc\/([A-Za-z0-9_]+\.txt)"/#include "SU_inc_l1\/\1"/ min=1
#else
//@BODY file=include/SQuIDS/detail/ProxyImpl.h sig=/void\s+BinaryElementwiseOpProxy<Op>::compute\s*\(/ rules=common,r2
//@SUB /auto\s+size\s*=/unsigned size=/ min=1
//@SUB /this->suv([12])\./suv\1./ min=3
//@SUB /\bop\(/user_op(/ min=2
#endif
}

double in_t[N], in_a[N], in_b[N], in_coef[D*(D-1)>0?D*(D-1):1];
int main(void){
  wmode=nondet_int(); __CPROVER_assume(wmode>=0 && wmode<=2);
  gk=nondet_unsigned();
  for(unsigned k=0;k<N;k++){ wcount[k]=0; in_t[k]=nondet_double(); in_a[k]=nondet_double(); in_b[k]=nondet_double(); }
  kt=nondet_double(); ka=nondet_double(); kcoef=in_coef;
  double a0=in_a[gk<N?gk:0], b0=in_b[gk<N?gk:0];
  struct SU_vector A, B; A.dim=D; A.size=N; B.dim=D; B.size=N; for(unsigned k=0;k<N;k++){ A.components[k]=in_a[k]; B.components[k]=in_b[k]; }
  struct vw T={D,{in_t}}; wbase=in_t; sq_thrown=0;
#if FAM==1 || FAM==4 || FAM==5
  compute(T,A,A);
#else
  compute(T,A,B);
#endif
  __CPROVER_assert(sq_thrown==0, "supported dimension: no exception");
  __CPROVER_assert(gk>=N || wcount[gk]==1, "C09: every target component is written exactly once");
  __CPROVER_assert(gk>=N || (SQ_SAME(in_a[gk],a0) && SQ_SAME(in_b[gk],b0)), "operands are not modified");
  __CPROVER_assert(0, "REACH end of harness");
  return 0;
}
