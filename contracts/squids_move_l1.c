/* C10: the value-transferring operations and switch setters of the solver object (src/SQuIDS.cpp): move constructor, move assignment, Set_<Term>Terms.
 * The data members are the ones declared in include/SQuIDS/SQuIDS.h (the check compares the declared member list with FIELDS below and stops with exit 2
 * on any difference).  Owning members (vectors, unique_ptrs, Const) are handles: std::move(other.m) -> sq_take(&other->m) (value out, source emptied).
 * Contract of both moves: every member of the target equals the source's member before the call (so the clock t, t_ini, the switches and the cached
 * buffer pointers travel with the object), the GSL back-pointer sys.params names the target, the source is marked unusable; nothing else is written. */
#include "sq_prelude.h"
typedef size_t handle_t;
struct gsl_system { const void* function; const void* jacobian; size_t dimension; void* params; };
#define BOOLS(X) X(CoherentRhoTerms) X(NonCoherentRhoTerms) X(OtherRhoTerms) X(GammaScalarTerms) X(OtherScalarTerms) X(AnyNumerics) X(is_init) X(adaptive_step)
#define DOUBLES(X) X(t) X(t_ini) X(h) X(h_min) X(h_max) X(abs_error) X(rel_error)
#define UINTS(X) X(nsteps) X(size_rho) X(size_state) X(nx) X(nsun) X(nrhos) X(nscalars)
#define HANDLES(X) X(x) X(system) X(dstate) X(params) X(state) X(estate)
#define PTRS(X) X(step) X(last_dstate_ptr) X(last_estate_ptr)
struct SQ {
#define D_(f) _Bool f;
  BOOLS(D_)
#undef D_
#define D_(f) double f;
  DOUBLES(D_)
#undef D_
#define D_(f) unsigned int f;
  UINTS(D_)
#undef D_
#define D_(f) handle_t f;
  HANDLES(D_)
#undef D_
#define D_(f) const void* f;
  PTRS(D_)
#undef D_
  struct gsl_system sys;
};
static handle_t sq_take(handle_t* h){ handle_t v=*h; *h=0; return v; }
#define EQ_(f) && self->f==__CPROVER_old(other->f)
#define EQD_(f) && SQ_SAME(self->f,__CPROVER_old(other->f))
#define MOVED_CONTRACT \
__CPROVER_ensures(1 BOOLS_NO_INIT(EQ_) UINTS(EQ_) HANDLES(EQ_) PTRS(EQ_))                       /* switches, sizes, owned storage, cached buffer pointers */ \
__CPROVER_ensures(1 DOUBLES(EQD_))                                                               /* the clock t, t_ini and the stepper settings */ \
__CPROVER_ensures(self->is_init==__CPROVER_old(other->is_init)) \
__CPROVER_ensures(self->sys.function==__CPROVER_old(other->sys.function) && self->sys.jacobian==__CPROVER_old(other->sys.jacobian) && self->sys.dimension==__CPROVER_old(other->sys.dimension)) \
__CPROVER_ensures(other!=self ==> (self->sys.params==(void*)self && other->is_init==0))       /* GSL calls back into the new object; the source is unusable */
#define BOOLS_NO_INIT(X) X(CoherentRhoTerms) X(NonCoherentRhoTerms) X(OtherRhoTerms) X(GammaScalarTerms) X(OtherScalarTerms) X(AnyNumerics) X(adaptive_step)
#undef SQ_RET
#define SQ_RET
void SQuIDS_move_assign(struct SQ* self, struct SQ* other)
__CPROVER_requires(__CPROVER_rw_ok(self,sizeof(*self)) && __CPROVER_rw_ok(other,sizeof(*other)) && (other==self || !__CPROVER_same_object(self,other)))
__CPROVER_assigns(__CPROVER_object_whole(self), other->is_init, other->x, other->system, other->dstate, other->params, other->state, other->estate)
MOVED_CONTRACT
__CPROVER_ensures(other==self ==> self->sys.params==__CPROVER_old(self->sys.params))
{
//@BODY file=src/SQuIDS.cpp sig=/SQuIDS&\s*SQuIDS::operator\s*=\s*\(\s*SQuIDS&&\s*other\s*\)/ rules=common,squids_move
}
void SQuIDS_move_ctor(struct SQ* self, struct SQ* other)
__CPROVER_requires(__CPROVER_rw_ok(self,sizeof(*self)) && __CPROVER_rw_ok(other,sizeof(*other)) && !__CPROVER_same_object(self,other))
__CPROVER_assigns(__CPROVER_object_whole(self), other->is_init, other->x, other->system, other->dstate, other->params, other->state, other->estate)
MOVED_CONTRACT
{
//@BODY file=src/SQuIDS.cpp sig=/SQuIDS::SQuIDS\s*\(\s*SQuIDS&&\s*other\s*\)/ rules=common,squids_move part=all
}
/* the five switch setters keep the cached aggregate: AnyNumerics == (any term switched on), and write nothing else */
#define SETTER(NAME) \
void SQuIDS_Set_##NAME(struct SQ* self, _Bool opt) \
__CPROVER_requires(__CPROVER_rw_ok(self,sizeof(*self))) \
__CPROVER_assigns(self->NAME, self->AnyNumerics) \
__CPROVER_ensures(self->NAME==opt) \
__CPROVER_ensures(self->AnyNumerics==(self->CoherentRhoTerms||self->NonCoherentRhoTerms||self->OtherRhoTerms||self->GammaScalarTerms||self->OtherScalarTerms))
SETTER(CoherentRhoTerms)
{
//@BODY file=src/SQuIDS.cpp sig=/void\s+SQuIDS::Set_CoherentRhoTerms\s*\(/ rules=common,squids_move
}
SETTER(NonCoherentRhoTerms)
{
//@BODY file=src/SQuIDS.cpp sig=/void\s+SQuIDS::Set_NonCoherentRhoTerms\s*\(/ rules=common,squids_move
}
SETTER(OtherRhoTerms)
{
//@BODY file=src/SQuIDS.cpp sig=/void\s+SQuIDS::Set_OtherRhoTerms\s*\(/ rules=common,squids_move
}
SETTER(GammaScalarTerms)
{
//@BODY file=src/SQuIDS.cpp sig=/void\s+SQuIDS::Set_GammaScalarTerms\s*\(/ rules=common,squids_move
}
SETTER(OtherScalarTerms)
{
//@BODY file=src/SQuIDS.cpp sig=/void\s+SQuIDS::Set_OtherScalarTerms\s*\(/ rules=common,squids_move
}
/* harnesses */
static void fill(struct SQ* s){
#define N_(f) s->f=nondet_bool();
  BOOLS(N_)
#undef N_
#define N_(f) s->f=nondet_double();
  DOUBLES(N_)
#undef N_
#define N_(f) s->f=nondet_unsigned();
  UINTS(N_)
#undef N_
#define N_(f) s->f=nondet_size_t();
  HANDLES(N_)
#undef N_
#define N_(f) s->f=(const void*)nondet_size_t();
  PTRS(N_)
#undef N_
  s->sys.function=(const void*)nondet_size_t(); s->sys.jacobian=(const void*)nondet_size_t(); s->sys.dimension=nondet_size_t(); s->sys.params=(void*)nondet_size_t(); }
void h_move_assign(void){ struct SQ a,b; fill(&a); fill(&b); _Bool same=nondet_bool(); SQuIDS_move_assign(&a, same?&a:&b); __CPROVER_assert(0,"REACH end of harness"); }
void h_move_ctor(void){ struct SQ a,b; fill(&b); SQuIDS_move_ctor(&a,&b); __CPROVER_assert(0,"REACH end of harness"); }
#define HS(NAME) void h_Set_##NAME(void){ struct SQ a; fill(&a); SQuIDS_Set_##NAME(&a,nondet_bool()); __CPROVER_assert(0,"REACH end of harness"); }
HS(CoherentRhoTerms) HS(NonCoherentRhoTerms) HS(OtherRhoTerms) HS(GammaScalarTerms) HS(OtherScalarTerms)
