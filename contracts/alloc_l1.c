/* C15 (C08 C16): the CONCRETE layout of SU_vector::alloc_aligned / deallocate_mem / clear_mem_cache (SUNalg.h:215-254, 795-806).
 * The abstract contracts of spec/su_l1.h hide the alignment offset; here the real bodies are verified against the concrete facts the
 * abstraction rests on:  alloc_aligned returns base+off with off<=3, [components, components+size) inside the block of size+3 doubles
 * obtained from operator new[] (or a block taken from the per-dimension cache together with its recorded offset), and the address
 * components+size%2 is 32-byte aligned;  deallocate_mem caches only aligned blocks and otherwise releases components-ptr_offset,
 * which is the base of the block when ptr_offset is the recorded one.
 * Pointer-to-integer casts: (intptr_t)p -> sq_addr(p) = ghost base address of p's object (an arbitrary multiple of 8, as operator
 * new[] guarantees for double) + byte offset of p.   The cache member functions are used through their contracts (C19). */
#include "sq_prelude.h"
#include <stdlib.h>
#undef SQ_RET
#define SQ_RET
typedef struct { double* storage; unsigned char offset; } mem_cache_entry;
size_t g_base_addr[1024];                                 /* ghost: address of each object, multiple of 8 */
#define SQ_OBJ(p) __CPROVER_POINTER_OBJECT(p)
static size_t sq_addr(const double* p){ return g_base_addr[SQ_OBJ(p)] + (size_t)__CPROVER_POINTER_OFFSET(p); }
int sq_live; int g_cache_n[SQUIDS_MAX_HILBERT_DIM+1];     /* ghost: number of blocks held by each per-dimension cache */
double* g_new_last;
/* operator new[] / delete[] */
double* sq_new(size_t n){ double* p=malloc(n*sizeof(double)); __CPROVER_assume(p!=NULL); __CPROVER_assume(g_base_addr[SQ_OBJ(p)]%8==0 && g_base_addr[SQ_OBJ(p)]<((size_t)1<<40)); sq_live++; g_new_last=p; return p; }
void sq_del(double* p){ __CPROVER_assert(p==NULL || __CPROVER_POINTER_OFFSET(p)==0, "C15: delete[] receives the pointer operator new[] returned (start of the block)"); free(p); sq_live--; }
/* storage_cache[dim].get() / insert(): contracts of detail::cache (C19): a LIFO pool whose entries are exactly what was inserted */
mem_cache_entry g_pool_top[SQUIDS_MAX_HILBERT_DIM+1];
mem_cache_entry cache_get(unsigned dim){
  __CPROVER_assert(dim<=SQUIDS_MAX_HILBERT_DIM, "C14 C15: storage_cache[dim] is inside the array of per-dimension caches");
  mem_cache_entry e; e.storage=NULL; e.offset=0;
  if(g_cache_n[dim]>0){ g_cache_n[dim]--; e=g_pool_top[dim]; }
  return e;
}
_Bool cache_insert(unsigned dim, mem_cache_entry e){
  __CPROVER_assert(dim<=SQUIDS_MAX_HILBERT_DIM, "C14 C15: storage_cache[dim] is inside the array of per-dimension caches");
  if(g_cache_n[dim]>=32 || nondet_bool()) return 0;
  g_cache_n[dim]++; g_pool_top[dim]=e; return 1;
}
#define SQUIDS_USE_STORAGE_CACHE 1

/* static void alloc_aligned(unsigned dim, unsigned size, double*& components, unsigned char& ptr_offset) */
void alloc_aligned(unsigned int dim, unsigned int size, double** components_, unsigned char* ptr_offset_){
#define components (*components_)
#define ptr_offset (*ptr_offset_)
//@BODY file=include/SQuIDS/SUNalg.h sig=/static\s+void\s+alloc_aligned\s*\(/ rules=common,alloc
#undef components
#undef ptr_offset
}
struct SU_vector { unsigned int dim; unsigned int size; double* components; unsigned char ptr_offset; bool isinit; bool isinit_d; };
void deallocate_mem(struct SU_vector* self){
//@BODY file=include/SQuIDS/SUNalg.h sig=/void\s+deallocate_mem\s*\(\s*\)/ rules=common,alloc,suv_members_only
}

int main(void){
  unsigned dim=nondet_unsigned(), size; __CPROVER_assume(dim<=SQUIDS_MAX_HILBERT_DIM); size=dim*dim;
  for(unsigned d=0; d<=SQUIDS_MAX_HILBERT_DIM; d++) g_cache_n[d]=0;          /* empty caches: the fresh-allocation branch */
  sq_live=0;
  double* c; unsigned char off=nondet_uchar();
  alloc_aligned(dim,size,&c,&off);
  double* base=g_new_last;
  __CPROVER_assert(off<=3 && c==base+off, "alloc_aligned: components = block base + ptr_offset, ptr_offset<=3");
  __CPROVER_assert((sq_addr(c+size%2))%32==0, "alloc_aligned: components+size%2 is 32-byte aligned (the documented alignment)");
  __CPROVER_assert(__CPROVER_same_object(c,base) && (size_t)__CPROVER_POINTER_OFFSET(c)+size*sizeof(double) <= (size+3)*sizeof(double), "alloc_aligned: [components,components+size) lies inside the block");
  __CPROVER_assert(sq_live==1, "one block obtained");
  /* give it back with the recorded offset: either cached (then handed out again unchanged) or deleted at its base */
  struct SU_vector v; v.dim=dim; v.size=size; v.components=c; v.ptr_offset=off; v.isinit=true; v.isinit_d=false;
  deallocate_mem(&v);
  __CPROVER_assert((g_cache_n[dim]==1 && sq_live==1 && g_pool_top[dim].storage==c && g_pool_top[dim].offset==off) || (g_cache_n[dim]==0 && sq_live==0), "deallocate_mem: block cached with its offset, or released exactly once");
  if(g_cache_n[dim]==1){
    double* c2; unsigned char off2=nondet_uchar();
    alloc_aligned(dim,size,&c2,&off2);
    __CPROVER_assert(c2==c && off2==off && sq_live==1 && g_cache_n[dim]==0, "alloc_aligned: a cached block comes back with the offset recorded for it");
  }
  /* any library block whatsoever (e.g. the unaligned new double[size] of the list / matrix constructors, offset 0): it may enter the cache only if it
   * has the documented alignment, because alloc_aligned hands cached blocks out as "optimally aligned" without looking at them again */
  { unsigned d2=nondet_unsigned(); __CPROVER_assume(2<=d2 && d2<=SQUIDS_MAX_HILBERT_DIM);
    for(unsigned d=0; d<=SQUIDS_MAX_HILBERT_DIM; d++) g_cache_n[d]=0;
    double* blk=sq_new(d2*d2+3); unsigned char o2=nondet_uchar(); __CPROVER_assume(o2<=3);
    struct SU_vector v2; v2.dim=d2; v2.size=d2*d2; v2.components=blk+o2; v2.ptr_offset=o2; v2.isinit=true; v2.isinit_d=false;
    deallocate_mem(&v2);
    __CPROVER_assert(g_cache_n[d2]==0 || sq_addr(v2.components+(d2*d2)%2)%32==0, "C15: only blocks with the documented 32-byte alignment are cached (and later handed out as aligned)"); }
  __CPROVER_assert(0,"REACH end of harness");
  return 0;
}
