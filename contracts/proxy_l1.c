/* Layer 1: the assignment policy of expression proxies -- SU_vector::assignProxy<Wrapper,Proxy> and the proxy constructor
 * SU_vector(ProxyType&&) (SUNalg.h:153-196, 306-323), EvaluationProxy::operator SU_vector() const& (ProxyImpl.h), mayStealArg1/2,
 * WrapperType::apply.   C09 (policy side), C08 (storage theft), C14 (size guards), C16 (allocation failure).
 * Templates are instantiated by ghost constants: the operation family `fam` (0..8), the guarantee flag set `gflags`, the wrapper `wmode`.
 * The trait values are the ones extracted from ProxyFwd.h; what the kernels *really* are (K_elementwise) is the specification. */
#include "su_l1.h"
#undef SQ_RET
#define SQ_RET
//@TRAITS
/* specification constants: which operation families are truly element-wise / how many vector operands they read */
static const unsigned K_elementwise[9]={0,0,1,1,1,1,0,0,1};
static const unsigned K_arity[9]      ={2,1,2,2,1,1,2,2,2};
static const unsigned K_allowResize[3]={1,0,0};     /* only plain assignment may resize its target; += and -= never do (C09 C14) */

unsigned fam, gflags; int wmode;                 /* instantiation under verification (fixed by the harness); gflags = the Flags template argument */
_Bool g_NoAlias, g_EqualSizes, g_Aligned;          /* which guarantees the user asserts: Flags is built from the library's own constants */
#define HAS_G        (gflags!=0)
#define tr_elementwise   (HAS_G ? GW_elementwise(gflags,TR_elementwise[fam])             : TR_elementwise[fam])
#define tr_arity         (HAS_G ? GW_vector_arity(gflags,TR_vector_arity[fam])           : TR_vector_arity[fam])
#define tr_no_alias      (HAS_G ? GW_no_alias_target(gflags,TR_no_alias_target[fam])     : TR_no_alias_target[fam])
#define tr_equal_size    (HAS_G ? GW_equal_target_size(gflags,TR_equal_target_size[fam]) : TR_equal_target_size[fam])
#define W_allowResize    (W_allowTargetResize[wmode])

struct proxy { const struct SU_vector* suv1; const struct SU_vector* suv2; int flags; };

#undef SQ_RET
#define SQ_RET 0
bool mayStealArg1(const struct proxy* self)
__CPROVER_requires(__CPROVER_r_ok(self,sizeof(*self)) && fam<9)
__CPROVER_assigns()
__CPROVER_ensures(__CPROVER_return_value == ((self->flags&1)!=0 && TR_elementwise[fam]!=0))
{
//@BODY file=include/SQuIDS/detail/ProxyFwd.h sig=/bool\s+mayStealArg1\s*\(/ rules=common
//@SUB /flags&detail::Arg1Movable\s*&&\s*operation_traits<Op>::elementwise/(self->flags&SQ_Arg1Movable) && TR_elementwise[fam]/ min=1
}
bool mayStealArg2(const struct proxy* self)
__CPROVER_requires(__CPROVER_r_ok(self,sizeof(*self)) && fam<9)
__CPROVER_assigns()
__CPROVER_ensures(__CPROVER_return_value == ((self->flags&2)!=0 && TR_elementwise[fam]!=0))
{
//@BODY file=include/SQuIDS/detail/ProxyFwd.h sig=/bool\s+mayStealArg2\s*\(/ rules=common
//@SUB /flags&detail::Arg2Movable\s*&&\s*operation_traits<Op>::elementwise/(self->flags&SQ_Arg2Movable) && TR_elementwise[fam]/ min=1
}
#undef SQ_RET
#define SQ_RET

/* ---- callee contracts ------------------------------------------------------------------------------------------- */
/* Proxy::compute(vector_wrapper<W>{dim,components}): CONTRACT.  Kernel side of C09: the kernels write every component of the target
 * exactly once through the wrapper (Layer 1, kernels) and compute the documented value (Layer 2).  Precondition = what the kernels need:
 * operand and target sizes agree, and a kernel that is not element-wise must not write into storage it is still reading. */
int g_compute_calls; double* g_compute_target; unsigned g_compute_dim; int g_compute_wmode;
void proxy_compute(const struct proxy* p, unsigned dim, double* components, int wm)
__CPROVER_requires(__CPROVER_r_ok(p,sizeof(*p)) && fam<9 && sq_thrown==0 && g_compute_calls>=0 && g_compute_calls<100)
__CPROVER_requires(2<=dim && dim<=SQ_MAXD && p->suv1->dim==dim && p->suv1->size==dim*dim)                         /* C14: kernels are only run on matching dimensions */
__CPROVER_requires(K_arity[fam]==2 && fam!=1 ==> (p->suv2->dim==dim && p->suv2->size==dim*dim))
__CPROVER_requires(__CPROVER_rw_ok(components, dim*dim*sizeof(double)) && __CPROVER_r_ok(p->suv1->components, dim*dim*sizeof(double)))
__CPROVER_requires(K_arity[fam]==2 ==> __CPROVER_r_ok(p->suv2->components, dim*dim*sizeof(double)))
__CPROVER_requires(!K_elementwise[fam] ==> (components!=p->suv1->components && (K_arity[fam]!=2 || components!=p->suv2->components)))   /* C09: no in-place evaluation of mixing kernels */
__CPROVER_assigns(__CPROVER_object_upto(components, dim*dim*sizeof(double)), g_compute_calls, g_compute_target, g_compute_dim, g_compute_wmode)
__CPROVER_ensures(g_compute_calls==__CPROVER_old(g_compute_calls)+1 && g_compute_target==components && g_compute_dim==dim && g_compute_wmode==wm)
;
/* callee contracts of plain assignment and compound assignment (their bodies are verified in suv_l1.c) */
void su_assign_copy(struct SU_vector* self, const struct SU_vector* other)
SU_ASSIGN_COPY_CONTRACT
;
#define COMPOUND_CONTRACT \
__CPROVER_requires(__CPROVER_r_ok(self, sizeof(*self)) && __CPROVER_r_ok(other, sizeof(*other)) && SU_VALID(self) && SU_VALID(other) && sq_thrown==0) \
__CPROVER_requires((self->size==other->size && self->size>0) ==> (self->components!=NULL && other->components!=NULL)) \
__CPROVER_assigns(sq_thrown, __CPROVER_object_upto(self->components, self->size*sizeof(double))) \
__CPROVER_ensures((sq_thrown==1) == (self->size!=other->size)) \
__CPROVER_ensures(sq_thrown==0 || sq_thrown==1)
void su_pluseq(struct SU_vector* self, const struct SU_vector* other) COMPOUND_CONTRACT ;
void su_minuseq(struct SU_vector* self, const struct SU_vector* other) COMPOUND_CONTRACT ;
void su_dtor(struct SU_vector* self)
SU_DTOR_CONTRACT
;
void su_ctor_sized(struct SU_vector* self, unsigned int d)
SU_CTOR_SIZED_CONTRACT
;

#define SQ_PROPAGATE_D(x) do{ if(sq_thrown){ su_dtor(&(x)); return SQ_RET; } }while(0)

/* WrapperType::apply(target,source): target=source / target+=source / target-=source (ProxyFwd.h:118-149), by wrapper */
/* every callee replaced by its contract must exist as a symbol even if a changed library no longer calls it (DFCC refuses unknown names) */
void sq_keep_symbols(void){ struct SU_vector a_,b_; su_assign_copy(&a_,&b_); su_pluseq(&a_,&b_); su_minuseq(&a_,&b_); }
int g_applied=-1;     /* which compound operation WrapperType::apply really performed: 0 '=', 1 '+=', 2 '-=' (ghost) */
void su_wrapper_apply(struct SU_vector* target, const struct SU_vector* source)
{
  if(wmode==0){
//@BODY file=include/SQuIDS/detail/ProxyFwd.h sig=/static\s+T&\s+apply\s*\(/ nth=0 rules=common,wrapapply
  } else if(wmode==1){
//@BODY file=include/SQuIDS/detail/ProxyFwd.h sig=/static\s+T&\s+apply\s*\(/ nth=1 rules=common,wrapapply
  } else {
//@BODY file=include/SQuIDS/detail/ProxyFwd.h sig=/static\s+T&\s+apply\s*\(/ nth=2 rules=common,wrapapply
  }
}

/* EvaluationProxy<Op>::operator SU_vector() const& : evaluate into a fresh temporary (result through *result) */
void su_from_proxy(struct SU_vector* result_, const struct proxy* self)
{
#define result (*result_)
//@BODY file=include/SQuIDS/detail/ProxyImpl.h sig=/EvaluationProxy<Op>::operator\s+SU_vector\s*\(\s*\)\s*const\s*&/ rules=common
//@SUB /SU_vector\s+result\s*\(\s*suv1\.dim\s*\)\s*;/su_ctor_sized(result_,self->suv1->dim); SQ_PROPAGATE;/ min=1
//@SUB /compute\s*\(\s*detail::vector_wrapper<detail::AssignWrapper>\s*\{\s*result\.dim\s*,\s*result\.components\s*\}\s*\)\s*;/proxy_compute(self,result.dim,result.components,0); SQ_PROPAGATE_D(result);/ min=1
//@SUB /return\s*\(\s*result\s*\)\s*;/return;/ min=1
#undef result
}

/* ---- the function under contract: SU_vector::assignProxy<WrapperType,ProxyType>(const ProxyType& proxy) ------------------ */
void assignProxy(struct SU_vector* self, const struct proxy* proxy)
__CPROVER_requires(fam<9 && wmode>=0 && wmode<=2 && gflags<8 && sq_thrown==0 && SQ_LEDGER_OK && g_compute_calls==0)
__CPROVER_requires(__CPROVER_rw_ok(self,sizeof(*self)) && __CPROVER_r_ok(proxy,sizeof(*proxy)) && __CPROVER_rw_ok(proxy->suv1,sizeof(struct SU_vector)) && __CPROVER_rw_ok(proxy->suv2,sizeof(struct SU_vector)))
__CPROVER_requires(SU_VALID(self) && SU_VALID(proxy->suv1) && SU_VALID(proxy->suv2) && (self->isinit ==> sq_live>0))
__CPROVER_assigns(*self, ALLOC_FRAME, g_compute_calls, g_compute_target, g_compute_dim, g_compute_wmode, g_applied,
                  __CPROVER_object_upto(self->components, self->size*sizeof(double)),
                  proxy->suv1->isinit, proxy->suv2->isinit, proxy->suv1->dim, proxy->suv1->size, proxy->suv1->components, proxy->suv2->dim, proxy->suv2->size, proxy->suv2->components;
                  (proxy->flags&1)!=0: __CPROVER_object_upto(proxy->suv1->components, proxy->suv1->size*sizeof(double));
                  (proxy->flags&2)!=0: __CPROVER_object_upto(proxy->suv2->components, proxy->suv2->size*sizeof(double)))
__CPROVER_frees(self->components)
__CPROVER_ensures(sq_thrown==0 || sq_thrown==1 || sq_thrown==2)
/* C09/C14: only a size-changing assignment to external storage or a size-mismatched += / -= fails (bad_alloc aside) */
__CPROVER_ensures(sq_thrown!=2 ==> ((sq_thrown==1) == (!g_EqualSizes && __CPROVER_old(self->size)!=__CPROVER_old(proxy->suv1->size) && (__CPROVER_old(self->isinit_d) || !K_allowResize[wmode]))))
__CPROVER_ensures(sq_thrown==1 ==> (g_compute_calls==0 || g_compute_target!=self->components))                          /* ... without modifying v */
__CPROVER_ensures(sq_thrown==1 ==> (self->dim==__CPROVER_old(self->dim) && self->size==__CPROVER_old(self->size) && self->components==__CPROVER_old(self->components)
                   && self->isinit==__CPROVER_old(self->isinit) && self->isinit_d==__CPROVER_old(self->isinit_d) && sq_live==__CPROVER_old(sq_live)))
/* C08: every vector involved is valid afterwards (also the operand whose storage was taken), whatever happened */
__CPROVER_ensures(SU_VALID(self) && SU_VALID(proxy->suv1) && SU_VALID(proxy->suv2))
__CPROVER_ensures(sq_thrown==0 ==> (self->dim==__CPROVER_old(proxy->suv1->dim) && self->size==__CPROVER_old(proxy->suv1->size)))
/* the operation was evaluated exactly once, with the wrapper of this statement form or through a fresh temporary */
__CPROVER_ensures(sq_thrown==0 ==> (g_compute_calls==1 && g_compute_dim==self->dim && ((g_compute_target==self->components && g_compute_wmode==wmode) || (g_compute_target!=self->components && g_compute_wmode==0))))
__CPROVER_ensures(sq_thrown==0 && g_compute_target!=self->components ==> g_applied==wmode)     /* C09: a result evaluated into a temporary is combined with the target by THIS statement's operation (=, +=, -=) */
__CPROVER_ensures(__CPROVER_old(self->isinit_d) ==> (self->isinit_d && !self->isinit && self->components==__CPROVER_old(self->components)))   /* external storage never replaced */
{
//@BODY file=include/SQuIDS/SUNalg.h sig=/SU_vector&\s+assignProxy\s*\(/ rules=common,proxy_access,suv_method
//@SUB /using\s+traits\s*=\s*detail::operation_traits<ProxyType>\s*;// min=1
//@SUB /traits::elementwise/tr_elementwise/ min=1
//@SUB /traits::no_alias_target/tr_no_alias/ min=1
//@SUB /traits::vector_arity/tr_arity/ min=1
//@SUB /traits::equal_target_size/tr_equal_size/ min=1
//@SUB /WrapperType::allowTargetResize/W_allowResize/ min=1
//@SUB /return\s*\(\s*WrapperType::apply\s*\(\s*\*this\s*,\s*static_cast<SU_vector>\s*\(\s*proxy\s*\)\s*\)\s*\)\s*;/{ struct SU_vector tmp_; su_from_proxy(&tmp_,proxy); SQ_PROPAGATE; su_wrapper_apply(self,&tmp_); su_dtor(&tmp_); return; }/ min=1
//@SUB /proxy\.compute\s*\(\s*detail::vector_wrapper<WrapperType>\s*\{\s*dim\s*,\s*components\s*\}\s*\)\s*;/proxy_compute(proxy,self->dim,self->components,wmode);/ min=1
//@SUB /const_cast<SU_vector&>\s*\(\s*proxy\.suv([12])\s*\)\s*\./((struct SU_vector*)proxy->suv\1)->/ min=2
}

/* ---- SU_vector(ProxyType&& proxy): construction from an expression (SUNalg.h:306-323) ------------------------------------ */
void su_ctor_proxy(struct SU_vector* self, const struct proxy* proxy)
__CPROVER_requires(fam<9 && gflags<8 && sq_thrown==0 && SQ_LEDGER_OK && g_compute_calls==0)
__CPROVER_requires(__CPROVER_w_ok(self,sizeof(*self)) && __CPROVER_r_ok(proxy,sizeof(*proxy)) && __CPROVER_rw_ok(proxy->suv1,sizeof(struct SU_vector)) && __CPROVER_r_ok(proxy->suv2,sizeof(struct SU_vector)))
__CPROVER_requires(SU_VALID(proxy->suv1) && SU_VALID(proxy->suv2))
__CPROVER_assigns(*self, ALLOC_FRAME, g_compute_calls, g_compute_target, g_compute_dim, g_compute_wmode,
                  proxy->suv1->isinit, proxy->suv1->dim, proxy->suv1->size, proxy->suv1->components;
                  (proxy->flags&1)!=0: __CPROVER_object_upto(proxy->suv1->components, proxy->suv1->size*sizeof(double)))
__CPROVER_ensures(sq_thrown==0 || sq_thrown==2)
__CPROVER_ensures(sq_thrown==2 ==> sq_live==__CPROVER_old(sq_live))
__CPROVER_ensures(SU_VALID(proxy->suv1) && SU_VALID(proxy->suv2))                               /* C08 C16: the consumed operand stays a valid vector */
__CPROVER_ensures(sq_thrown==0 ==> (SU_VALID(self) && self->dim==__CPROVER_old(proxy->suv1->dim) && self->size==__CPROVER_old(proxy->suv1->size)))
__CPROVER_ensures(sq_thrown==0 ==> (g_compute_calls==1 && g_compute_target==self->components && g_compute_dim==self->dim && g_compute_wmode==0))
__CPROVER_ensures(sq_thrown==0 ==> !(self->isinit && proxy->suv1->isinit && self->components==proxy->suv1->components))   /* C08: never two owners of one block */
{
//@BODY file=include/SQuIDS/SUNalg.h sig=/SU_vector\s*\(\s*ProxyType&&\s*proxy\s*,\s*REQUIRE_EVALUATION_PROXY_FPARAM\s*\)/ part=all rules=common,proxy_access,suv_method
//@SUB /proxy\.compute\s*\(\s*detail::vector_wrapper<detail::AssignWrapper>\s*\{\s*dim\s*,\s*components\s*\}\s*\)\s*;/proxy_compute(proxy,self->dim,self->components,0);/ min=1
//@SUB /const_cast<SU_vector&>\s*\(\s*proxy\.suv1\s*\)\s*\./((struct SU_vector*)proxy->suv1)->/ min=1
//@SUB /alloc_aligned\s*\(\s*dim\s*,\s*size\s*,\s*components\s*,\s*ptr_offset\s*\)\s*;/{ alloc_aligned(dim,size,components,ptr_offset); }/ min=1
}

/* ---- harness ---------------------------------------------------------------------------------------------------- */
static void mk(struct SU_vector* v){ int k=nondet_int(); unsigned d=nondet_unsigned(); __CPROVER_assume(k>=0 && k<=2); __CPROVER_assume(d==2 || d==3); sq_mk_valid(v,k,d); }
void h_assignProxy(void){
  struct SU_vector t, a, b; struct proxy p;
  sq_thrown=0; sq_live=nondet_int(); __CPROVER_assume(sq_live>=0 && sq_live<800); sq_alloc_budget=nondet_int(); __CPROVER_assume(sq_alloc_budget>=-1 && sq_alloc_budget<4);
  fam=nondet_unsigned(); gflags=nondet_unsigned(); wmode=nondet_int(); g_compute_calls=0;
  __CPROVER_assume(fam<9 && gflags<8 && wmode>=0 && wmode<=2);
#ifdef FIX_FAM
  __CPROVER_assume(fam==FIX_FAM);
#endif
#ifdef FIX_WMODE
  __CPROVER_assume(wmode==FIX_WMODE);
#endif
#ifdef FIX_G
  __CPROVER_assume(gflags==FIX_G);
#endif
  /* operands: non-empty (the operator overloads that build the proxy read them), equal dimensions (guards of the entry points, C14) */
  mk(&a); __CPROVER_assume(a.isinit||a.isinit_d); __CPROVER_assume(a.components!=NULL);
  int two = K_arity[fam]==2 && fam!=1;
  int same_ab=nondet_int();
  if(two && !same_ab){ mk(&b); __CPROVER_assume((b.isinit||b.isinit_d) && b.dim==a.dim && b.components!=NULL); }
  p.suv1=&a; p.suv2=(two && !same_ab)?&b:&a;
  /* rvalue operands: only when the entry point says so (element-wise families), never the same object twice, and an rvalue is not aliased */
  p.flags=nondet_int(); __CPROVER_assume(p.flags>=0 && p.flags<=3);
  __CPROVER_assume(K_elementwise[fam] || p.flags==0);
  __CPROVER_assume(!(p.flags&2) || (two && !same_ab));
  /* target: any valid vector; alias patterns: the target IS an lvalue operand, or shares an external buffer with one */
  int alias=nondet_int(); __CPROVER_assume(alias>=0 && alias<=3);
  struct SU_vector* tp=&t;
  if(alias==1 && !(p.flags&1)) tp=&a;
  else if(alias==2 && two && !same_ab && !(p.flags&2)) tp=&b;
  else { mk(&t); if(alias==3 && t.isinit_d && a.isinit_d && t.dim==a.dim && !(p.flags&1)) t.components=a.components; }
  __CPROVER_assume(!(tp->isinit||tp->isinit_d) || tp->components!=NULL);
  /* the user writes guarantee<NoAlias|EqualSizes|AlignedStorage>(...) with the library's named constants, and only TRUE guarantees */
  g_NoAlias=nondet_bool(); g_EqualSizes=nondet_bool(); g_Aligned=nondet_bool();
  __CPROVER_assume(gflags == ((g_NoAlias?SQ_NoAlias:0u)|(g_EqualSizes?SQ_EqualSizes:0u)|(g_Aligned?SQ_AlignedStorage:0u)));
  int aliased = (tp->components==a.components) || (p.suv2->components==tp->components);
  __CPROVER_assume(!g_NoAlias || !aliased);
  __CPROVER_assume(!g_EqualSizes || tp->size==a.size);
  assignProxy(tp,&p);
  __CPROVER_assert(0,"REACH end of harness");
}
void h_ctor_proxy(void){
  struct SU_vector r, a, b; struct proxy p;
  sq_thrown=0; sq_live=nondet_int(); __CPROVER_assume(sq_live>=0 && sq_live<800); sq_alloc_budget=nondet_int(); __CPROVER_assume(sq_alloc_budget>=-1 && sq_alloc_budget<4);
  fam=nondet_unsigned(); gflags=nondet_unsigned(); wmode=0; g_compute_calls=0;
  __CPROVER_assume(fam<9 && gflags<8);
#ifdef FIX_FAM
  __CPROVER_assume(fam==FIX_FAM);
#endif
  mk(&a); __CPROVER_assume(a.isinit||a.isinit_d); __CPROVER_assume(a.components!=NULL);
  int two = K_arity[fam]==2 && fam!=1; int same_ab=nondet_int();
  if(two && !same_ab){ mk(&b); __CPROVER_assume((b.isinit||b.isinit_d) && b.dim==a.dim && b.components!=NULL); }
  p.suv1=&a; p.suv2=(two && !same_ab)?&b:&a;
  p.flags=nondet_int(); __CPROVER_assume(p.flags>=0 && p.flags<=3);
  __CPROVER_assume(K_elementwise[fam] || p.flags==0);
  __CPROVER_assume(!(p.flags&2) || (two && !same_ab));
  su_ctor_proxy(&r,&p);
  __CPROVER_assert(0,"REACH end of harness");
}
