/* C13 Layer 1: the static factories of SU_vector (src/SUNalg.cpp:184-315) under DFCC contracts.
 * Modularity: make_aligned and ComponentsFromMatrices are replaced by their contracts; the matrix handed to
 * ComponentsFromMatrices is observed through the ghost log of its contract (entry (GI,GJ), GI,GJ unconstrained).
 * ComponentsFromMatrices's own value contract (components += Phi(matrix)) is Layer 2 (C01 frommatrix.cfm). */
#include "su_l1.h"
#define KRONECKER(i,j)  ( (i)==(j) ? 1 : 0 )
struct sq_array_2D { unsigned int d; double* data; };

unsigned GI, GJ;                       /* ghost indices of the observed matrix entry */
int g_cfm_calls; unsigned g_cfm_dim; double g_cfm_re, g_cfm_im; double* g_cfm_target;
#define CL(x,n) ((x)<(n)?(x):0u)

#undef SQ_RET
#define SQ_RET
/* SU_vector::SU_vector() */
void su_ctor_default(struct SU_vector* self)
__CPROVER_requires(__CPROVER_w_ok(self, sizeof(*self)))
__CPROVER_assigns(*self)
__CPROVER_ensures(self->dim==0 && self->size==0 && self->components==NULL && !self->isinit && !self->isinit_d)
__CPROVER_ensures(self->ptr_offset==__CPROVER_old(self->ptr_offset))     /* not initialised by the constructor: arbitrary */
{
//@BODY file=src/SUNalg.cpp sig=/SU_vector::SU_vector\s*\(\s*\)/ part=init rules=ctor_init
}

/* SU_vector::~SU_vector() */
void su_dtor(struct SU_vector* self)
__CPROVER_requires(__CPROVER_r_ok(self, sizeof(*self)) && self->dim<=SQ_MAXD && SQ_LEDGER_OK)
__CPROVER_requires(self->isinit ==> (self->components!=NULL && __CPROVER_is_freeable(self->components) && sq_live>0
                   && sq_blk_lib[SQ_OBJ(self->components)]==1 && sq_blk_off[SQ_OBJ(self->components)]==self->ptr_offset))
__CPROVER_assigns(sq_live)
__CPROVER_frees(self->components)
__CPROVER_ensures(sq_live==__CPROVER_old(sq_live)-(self->isinit?1:0))
{
//@BODY file=include/SQuIDS/SUNalg.h sig=/~SU_vector\s*\(\s*\)/ rules=common,suv_method
}
#define SQ_PROPAGATE_D(x) do{ if(sq_thrown){ su_dtor(&(x)); return SQ_RET; } }while(0)

/* static SU_vector SU_vector::make_aligned(unsigned dim, bool zero_fill) -> result through *ret */
void su_make_aligned(struct SU_vector* ret, unsigned dim, bool zero_fill)
__CPROVER_requires(__CPROVER_w_ok(ret, sizeof(*ret)) && sq_thrown==0 && sq_live>=0 && sq_live<900)
__CPROVER_assigns(*ret, sq_thrown, sq_live, sq_alloc_budget)
__CPROVER_ensures(sq_thrown==0 || sq_thrown==1 || sq_thrown==2)
__CPROVER_ensures(sq_thrown!=2 ==> ((sq_thrown==1) == (dim==1 || dim>SQ_MAXD)))            /* C14 C13: the aligned factory rejects dimension 1 and above 6 */
__CPROVER_ensures(sq_thrown!=0 ==> sq_live==__CPROVER_old(sq_live))                        /* C16 C15 C13: nothing leaked when it fails */
__CPROVER_ensures(sq_thrown==0 ==> (ret->dim==dim && ret->size==dim*dim && ret->isinit && !ret->isinit_d && ret->ptr_offset<=SQ_HEADROOM
                   && sq_live==__CPROVER_old(sq_live)+1
                   && __CPROVER_is_fresh(ret->components, (dim*dim>0?dim*dim:1)*sizeof(double))
                   && sq_blk_lib[SQ_OBJ(ret->components)]==1 && sq_blk_off[SQ_OBJ(ret->components)]==ret->ptr_offset))
__CPROVER_ensures(sq_thrown==0 && zero_fill && gk<dim*dim ==> ret->components[gk]==0.0)
{
//@BODY file=src/SUNalg.cpp sig=/SU_vector\s+SU_vector::make_aligned\s*\(/ rules=common,suv_locals
//@SUB /return\s*\(\s*v\s*\)\s*;/*ret=v; return;/ min=1
//@SUB /(?<![\w.])alloc_aligned\s*\(\s*([\w.]+)\s*,\s*([\w.]+)\s*,\s*([\w.]+)\s*,\s*([\w.]+)\s*\)\s*;/su_alloc_aligned(\1,\2,&\3,&\4); SQ_PROPAGATE_D(v);   \/* stack unwinding destroys the local v *\// min=1
}

/* ComponentsFromMatrices: frame + ghost log (value contract is Layer 2) */
void ComponentsFromMatrices(double* components, unsigned int dim, const struct sq_array_2D m_real, const struct sq_array_2D m_imag)
__CPROVER_requires(sq_thrown==0 && g_cfm_calls>=0 && g_cfm_calls<1000 && dim<=SQ_MAXD)
__CPROVER_requires((2<=dim && dim<=SQ_MAXD) ==> (m_real.d==dim && m_imag.d==dim
                   && __CPROVER_r_ok(m_real.data, dim*dim*sizeof(double)) && __CPROVER_r_ok(m_imag.data, dim*dim*sizeof(double))
                   && __CPROVER_rw_ok(components, dim*dim*sizeof(double))))
__CPROVER_requires((2<=dim && dim<=SQ_MAXD && gk<dim*dim) ==> components[gk]==0.0)       /* callers hand over a zero-filled target */
__CPROVER_assigns(__CPROVER_object_upto(components, dim*dim*sizeof(double)), g_cfm_calls, g_cfm_dim, g_cfm_re, g_cfm_im, g_cfm_target, sq_thrown)
__CPROVER_ensures((sq_thrown==1) == !(2<=dim && dim<=SQ_MAXD))     /* the kernel selector rejects other dimensions */
__CPROVER_ensures(sq_thrown==0 || sq_thrown==1)
__CPROVER_ensures(g_cfm_calls==__CPROVER_old(g_cfm_calls)+1 && g_cfm_dim==dim && g_cfm_target==components)
__CPROVER_ensures(sq_thrown!=0 || (SQ_SAME(g_cfm_re, __CPROVER_old(m_real.data[(2<=dim?dim*CL(GI,dim)+CL(GJ,dim):0)])) && SQ_SAME(g_cfm_im, __CPROVER_old(m_imag.data[(2<=dim?dim*CL(GI,dim)+CL(GJ,dim):0)]))))
;

/* the documented 0/1 matrices (entry (GI,GJ)) */
#define EXPECT_Projector    ((GI==GJ && GI==ii)?1.0:0.0)
#define EXPECT_Identity     ((GI==GJ)?1.0:0.0)
#define EXPECT_PosProjector ((GI==GJ && GI<ii)?1.0:0.0)
#define EXPECT_NegProjector ((GI==GJ && GI>=d-ii)?1.0:0.0)
#define FACTORY_COMMON(name) \
__CPROVER_requires(__CPROVER_w_ok(ret, sizeof(*ret)) && sq_thrown==0 && g_cfm_calls==0 && sq_live>=0 && sq_live<900) \
__CPROVER_assigns(*ret, sq_thrown, sq_live, sq_alloc_budget, g_cfm_calls, g_cfm_dim, g_cfm_re, g_cfm_im, g_cfm_target) \
__CPROVER_ensures(sq_thrown==0 || sq_thrown==1 || sq_thrown==2) \
__CPROVER_ensures(sq_thrown!=0 ==> sq_live==__CPROVER_old(sq_live))                      /* nothing leaked on an exception */ \
__CPROVER_ensures(sq_thrown==0 ==> (ret->dim==d && ret->size==d*d && ret->isinit && !ret->isinit_d && sq_live==__CPROVER_old(sq_live)+1 \
                   && g_cfm_calls==1 && g_cfm_dim==d && g_cfm_target==ret->components))                                    \
__CPROVER_ensures(sq_thrown==0 && GI<d && GJ<d ==> g_cfm_im==0.0)

void Projector(struct SU_vector* ret, unsigned int d, unsigned int ii)
FACTORY_COMMON(Projector)
__CPROVER_ensures(sq_thrown!=2 ==> ((sq_thrown==1) == (d==1 || d>SQ_MAXD || ii>=d)))   /* (bad_alloc aside) rejected iff ... */
__CPROVER_ensures(sq_thrown==0 && GI<d && GJ<d ==> g_cfm_re==EXPECT_Projector)        /* single 1 at diagonal position ii */
{
//@BODY file=src/SUNalg.cpp sig=/SU_vector\s+SU_vector::Projector\s*\(/ rules=common,suv_locals,factory
//@LOOP 0 __CPROVER_assigns(i, __CPROVER_object_whole(m_real), __CPROVER_object_whole(m_imag))
//@+ __CPROVER_loop_invariant(i<=d && ((GI<i && GJ<d) ==> (m_real[GI*d+GJ]==EXPECT_Projector && m_imag[GI*d+GJ]==0.0)))
//@+ __CPROVER_decreases(d-i)
//@LOOP 1 __CPROVER_assigns(j, __CPROVER_object_whole(m_real), __CPROVER_object_whole(m_imag))
//@+ __CPROVER_loop_invariant(j<=d && i<d && ((GI<i && GJ<d) ==> (m_real[GI*d+GJ]==EXPECT_Projector && m_imag[GI*d+GJ]==0.0))
//@+    && ((GI==i && GJ<j) ==> (m_real[GI*d+GJ]==EXPECT_Projector && m_imag[GI*d+GJ]==0.0)))
//@+ __CPROVER_decreases(d-j)
}
void Identity(struct SU_vector* ret, unsigned int d)
FACTORY_COMMON(Identity)
__CPROVER_ensures(sq_thrown!=2 ==> ((sq_thrown==1) == (d==1 || d>SQ_MAXD || d==0)))   /* (bad_alloc aside) rejected iff ... */
__CPROVER_ensures(sq_thrown==0 && GI<d && GJ<d ==> g_cfm_re==EXPECT_Identity)
{
//@BODY file=src/SUNalg.cpp sig=/SU_vector\s+SU_vector::Identity\s*\(/ rules=common,suv_locals,factory
//@LOOP 0 __CPROVER_assigns(i, __CPROVER_object_whole(m_real), __CPROVER_object_whole(m_imag))
//@+ __CPROVER_loop_invariant(i<=d && ((GI<i && GJ<d) ==> (m_real[GI*d+GJ]==EXPECT_Identity && m_imag[GI*d+GJ]==0.0)))
//@+ __CPROVER_decreases(d-i)
//@LOOP 1 __CPROVER_assigns(j, __CPROVER_object_whole(m_real), __CPROVER_object_whole(m_imag))
//@+ __CPROVER_loop_invariant(j<=d && i<d && ((GI<i && GJ<d) ==> (m_real[GI*d+GJ]==EXPECT_Identity && m_imag[GI*d+GJ]==0.0))
//@+    && ((GI==i && GJ<j) ==> (m_real[GI*d+GJ]==EXPECT_Identity && m_imag[GI*d+GJ]==0.0)))
//@+ __CPROVER_decreases(d-j)
}
void PosProjector(struct SU_vector* ret, unsigned int d, unsigned int ii)
FACTORY_COMMON(PosProjector)
__CPROVER_ensures(sq_thrown!=2 ==> ((sq_thrown==1) == (d==1 || d>SQ_MAXD || ii>=d)))   /* (bad_alloc aside) rejected iff ... */
__CPROVER_ensures(sq_thrown==0 && GI<d && GJ<d ==> g_cfm_re==EXPECT_PosProjector)          /* ones in the first ii positions */
{
//@BODY file=src/SUNalg.cpp sig=/SU_vector\s+SU_vector::PosProjector\s*\(/ rules=common,suv_locals,factory
//@LOOP 0 __CPROVER_assigns(i, __CPROVER_object_whole(m_real), __CPROVER_object_whole(m_imag))
//@+ __CPROVER_loop_invariant(i<=d && ((GI<i && GJ<d) ==> (m_real[GI*d+GJ]==EXPECT_PosProjector && m_imag[GI*d+GJ]==0.0)))
//@+ __CPROVER_decreases(d-i)
//@LOOP 1 __CPROVER_assigns(j, __CPROVER_object_whole(m_real), __CPROVER_object_whole(m_imag))
//@+ __CPROVER_loop_invariant(j<=d && i<d && ((GI<i && GJ<d) ==> (m_real[GI*d+GJ]==EXPECT_PosProjector && m_imag[GI*d+GJ]==0.0))
//@+    && ((GI==i && GJ<j) ==> (m_real[GI*d+GJ]==EXPECT_PosProjector && m_imag[GI*d+GJ]==0.0)))
//@+ __CPROVER_decreases(d-j)
}
void NegProjector(struct SU_vector* ret, unsigned int d, unsigned int ii)
FACTORY_COMMON(NegProjector)
__CPROVER_ensures(sq_thrown!=2 ==> ((sq_thrown==1) == (d==1 || d>SQ_MAXD || ii>=d)))   /* (bad_alloc aside) rejected iff ... */
__CPROVER_ensures(sq_thrown==0 && GI<d && GJ<d ==> g_cfm_re==EXPECT_NegProjector)       /* ones in the last ii positions */
{
//@BODY file=src/SUNalg.cpp sig=/SU_vector\s+SU_vector::NegProjector\s*\(/ rules=common,suv_locals,factory
//@LOOP 0 __CPROVER_assigns(i, __CPROVER_object_whole(m_real), __CPROVER_object_whole(m_imag))
//@+ __CPROVER_loop_invariant(i<=d && ((GI<i && GJ<d) ==> (m_real[GI*d+GJ]==EXPECT_NegProjector && m_imag[GI*d+GJ]==0.0)))
//@+ __CPROVER_decreases(d-i)
//@LOOP 1 __CPROVER_assigns(j, __CPROVER_object_whole(m_real), __CPROVER_object_whole(m_imag))
//@+ __CPROVER_loop_invariant(j<=d && i<d && ((GI<i && GJ<d) ==> (m_real[GI*d+GJ]==EXPECT_NegProjector && m_imag[GI*d+GJ]==0.0))
//@+    && ((GI==i && GJ<j) ==> (m_real[GI*d+GJ]==EXPECT_NegProjector && m_imag[GI*d+GJ]==0.0)))
//@+ __CPROVER_decreases(d-j)
}
void Generator(struct SU_vector* ret, unsigned int d, unsigned int ii)
__CPROVER_requires(__CPROVER_w_ok(ret, sizeof(*ret)) && sq_thrown==0 && sq_live>=0 && sq_live<900)
__CPROVER_assigns(*ret, sq_thrown, sq_live, sq_alloc_budget)
__CPROVER_ensures(sq_thrown==0 || sq_thrown==1 || sq_thrown==2)
__CPROVER_ensures(sq_thrown!=2 ==> ((sq_thrown==1) == (d==1 || d>SQ_MAXD || ii>=d*d)))   /* (bad_alloc aside) rejected iff ... */
__CPROVER_ensures(sq_thrown!=0 ==> sq_live==__CPROVER_old(sq_live))
__CPROVER_ensures(sq_thrown==0 ==> (ret->dim==d && ret->size==d*d && ret->isinit && !ret->isinit_d && sq_live==__CPROVER_old(sq_live)+1))
__CPROVER_ensures(sq_thrown==0 && gk<d*d ==> ret->components[gk]==((gk==ii)?1.0:0.0))                /* unit vector along component ii */
{
//@BODY file=src/SUNalg.cpp sig=/SU_vector\s+SU_vector::Generator\s*\(/ rules=common,suv_locals,factory
}

#define H1(f)   void h_##f(void){ struct SU_vector r; unsigned d; f(&r,d); __CPROVER_assert(0,"REACH end of harness"); }
#define H2(f)   void h_##f(void){ struct SU_vector r; unsigned d, i; f(&r,d,i); __CPROVER_assert(0,"REACH end of harness"); }
H2(Projector) H1(Identity) H2(PosProjector) H2(NegProjector) H2(Generator)
void h_su_make_aligned(void){ struct SU_vector r; unsigned d; bool z; sq_thrown=0; sq_live=nondet_int(); __CPROVER_assume(sq_live>=0 && sq_live<800); su_make_aligned(&r,d,z); __CPROVER_assert(0,"REACH end of harness"); }
void h_su_dtor(void){ struct SU_vector r; int k=nondet_int(); sq_live=nondet_int(); __CPROVER_assume(sq_live>=0 && sq_live<900); unsigned d=nondet_unsigned(); __CPROVER_assume(k>=0&&k<=2); sq_mk_valid(&r,k,d); su_dtor(&r); __CPROVER_assert(0,"REACH end of harness"); }
void h_su_ctor_default(void){ struct SU_vector r; su_ctor_default(&r); __CPROVER_assert(0,"REACH end of harness"); }

