/* C06: the two SU_vector::WeightedRotation overloads are the same three-step map: to the V basis (RotateToB0(paramV) = V . V^dagger = UDaggerTransform(V)),
 * the Yd sandwich (1/4)({Yd,{Yd,s}} + i[Yd,i[Yd,s]]) = Yd s Yd (spec lemma from C02's contracts), to the W basis (RotateToB1(paramW) = W^dagger . W = UTransform(W)),
 * applied to a copy of *this and stored back.  Callees by their contracts (C06 rotations, C02 commutators, C08 assignment) as ghost-logging stubs. */
typedef double R; R nondet_R(void);
struct SU_vector { unsigned dim; int id; int val; };     /* val: abstract value token */
struct Const { int id; };  typedef struct { int id; } gsl_matrix_complex;
enum { K_CTOR=1, K_COPY, K_B0, K_B1, K_UDAG, K_UT, K_SANDWICH, K_STORE };
static int ev[12], ea[12], eb[12], nev, g_tok=100; static R ef[12];
static void lg(int k,int a,int b,R f){ if(nev<12){ ev[nev]=k; ea[nev]=a; eb[nev]=b; ef[nev]=f; } nev++; }
static void su_ctor_sized(struct SU_vector* v, unsigned d){ v->dim=d; v->id=7; v->val=g_tok++; lg(K_CTOR,d,0,0); }
static void su_assign(struct SU_vector* t, const struct SU_vector* s){ lg(t->id==7?K_COPY:K_STORE, s->val, t->id, 0); t->val=s->val; t->dim=s->dim; }
static void su_RotateToB0(struct SU_vector* v, const struct Const* p){ lg(K_B0, v->val, p->id, 0); v->val=g_tok++; }
static void su_RotateToB1(struct SU_vector* v, const struct Const* p){ lg(K_B1, v->val, p->id, 0); v->val=g_tok++; }
static void su_assign_UDagger(struct SU_vector* t, const struct SU_vector* s, gsl_matrix_complex* m){ lg(K_UDAG, s->val, m->id, 0); t->val=g_tok++; }
static void su_assign_UTransform(struct SU_vector* t, const struct SU_vector* s, gsl_matrix_complex* m){ lg(K_UT, s->val, m->id, 0); t->val=g_tok++; }
static void op_sandwich(struct SU_vector* t, const struct SU_vector* y1, const struct SU_vector* y2, const struct SU_vector* s1, const struct SU_vector* y3, const struct SU_vector* y4, const struct SU_vector* s2, R f){
  int same = y1==y2 && y2==y3 && y3==y4 && s1==t && s2==t; lg(K_SANDWICH, same?t->val:-1, y1->id, f); t->val=g_tok++; }
static void WR_params(struct SU_vector* self, const struct Const* paramV, const struct SU_vector* Yd, const struct Const* paramW){
//@BODY file=src/SUNalg.cpp sig=/void\s+SU_vector::WeightedRotation\s*\(\s*const\s+Const&/ rules=common,wrot
}
static void WR_matrices(struct SU_vector* self, gsl_matrix_complex* V, const struct SU_vector* Yd, gsl_matrix_complex* W){
//@BODY file=src/SUNalg.cpp sig=/void\s+SU_vector::WeightedRotation\s*\(\s*gsl_matrix_complex\s*\*/ rules=common,wrot
}
int main(void){
  struct SU_vector a={3,1,50}, y={3,2,60}; struct Const pv={11}, pw={12}; gsl_matrix_complex V={11}, W={12};
  a.dim=nondet_R()>0?2:6;
#if WHICH==1
  WR_params(&a,&pv,&y,&pw);
  int s1=K_B0, s3=K_B1;
#else
  WR_matrices(&a,&V,&y,&W);
  int s1=K_UDAG, s3=K_UT;
#endif
  __CPROVER_assert(nev==6 && ev[0]==K_CTOR && ea[0]==(int)a.dim && ev[1]==K_COPY && ea[1]==50, "C06: WeightedRotation works on a copy of *this of the same dimension");
  __CPROVER_assert(ev[2]==s1 && ea[2]==50 && eb[2]==11, "C06: first step: to the V basis (RotateToB0(paramV) / UDaggerTransform(V)) of the copied value");
  __CPROVER_assert(ev[3]==K_SANDWICH && ea[3]>=100 && eb[3]==2 && ef[3]==0.25, "C06: second step: (1/4)({Yd,{Yd,s}} + i[Yd,i[Yd,s]]) of the rotated value, with Yd in all four places");
  __CPROVER_assert(ev[4]==s3 && ea[4]==ea[3]+1 && eb[4]==12, "C06: third step: to the W basis (RotateToB1(paramW) / UTransform(W)) of the sandwiched value");
  __CPROVER_assert(ev[5]==K_STORE && eb[5]==1 && ea[5]==ea[4]+1 && a.val==ea[5], "C06: the result is stored back into *this");
  return 0;
}
