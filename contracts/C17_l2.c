/* C17, node values of SQuIDS::Set_xrange(xi,xf,scale) in real arithmetic, grid length NX a job parameter (bounded stand-in: one job per NX).
 * linear: x[k] = xi+(xf-xi)k/(nx-1); log: x[k] = exp(log xi + (log xf - log xi) k/(nx-1)) with exp/log known only as mutually inverse, strictly
 * increasing functions (libm trusted).  Obligations: every node has the documented value, x[0]=xi, x[nx-1]=xf, strictly increasing. */
typedef double R; R nondet_R(void);
enum { TOK_other=0, TOK_linear, TOK_Linear, TOK_lin, TOK_Lin, TOK_log, TOK_Log };
static int sq_thrown;
#define SQ_THROW(...) do{ sq_thrown=1; return; }while(0)
static R g_xi, g_xf, LA, LB;                       /* LA = log xi, LB = log xf */
static R eX[NX], eV[NX]; static int n_exp, n_badlog;
static R sq_log(R v){ if(v==g_xi) return LA; if(v==g_xf) return LB; n_badlog++; return nondet_R(); }
static R sq_exp(R X){ R v=nondet_R();
  if(X==LA) v=g_xi; else if(X==LB) v=g_xf;
  for(int q=0;q<NX;q++) if(q<n_exp){ __CPROVER_assume((eX[q]<X)==(eV[q]<v) && (eX[q]==X)==(eV[q]==v)); }     /* strictly increasing */
  __CPROVER_assume((LA<X)==(g_xi<v) && (X<LB)==(v<g_xf));
  if(n_exp<NX){ eX[n_exp]=X; eV[n_exp]=v; } n_exp++; return v; }
#define log(a) sq_log(a)
#define exp(a) sq_exp(a)
static void Set_xrange3(R* x, unsigned nx, R xi, R xf, int type){
//@BODY file=src/SQuIDS.cpp sig=/void\s+SQuIDS::Set_xrange\s*\(\s*double/ rules=common
//@SUB /type\s*==\s*"([A-Za-z]+)"/type==TOK_\1/ min=6
}
int main(void){
  R x[NX]; for(int k=0;k<NX;k++) x[k]=nondet_R();
  R xi=nondet_R(), xf=nondet_R(); __CPROVER_assume(xi<xf);
  g_xi=xi; g_xf=xf; LA=nondet_R(); LB=nondet_R(); __CPROVER_assume(LA<LB);
#if SCALE==0
  int type=TOK_LINNAME;
#else
  int type=TOK_LOGNAME; __CPROVER_assume(xi>=1.0e-10);
#endif
  Set_xrange3(x,NX,xi,xf,type);
  __CPROVER_assert(!sq_thrown && n_badlog==0, "C17: a valid range is accepted; log is taken of the two ends only");
  int ok=1, mono=1;
  for(int k=0;k<NX;k++){
#if SCALE==0
    ok = ok && x[k]==xi+(xf-xi)*(R)k/(R)(NX-1);
#else
    ok = ok && k<n_exp && x[k]==eV[k] && eX[k]==LA+(LB-LA)*(R)k/(R)(NX-1);
#endif
    if(k>0) mono = mono && x[k-1]<x[k]; }
  __CPROVER_assert(ok, "C17: every node has the documented value");
  __CPROVER_assert(x[0]==xi && x[NX-1]==xf, "C17: the first and last nodes are the requested ends");
  __CPROVER_assert(mono, "C17: the grid is strictly increasing");
  return 0;
}
