/* C06: Const::GetTransformationMatrix(dim) (src/const.cpp) builds the mixing matrix as the ordered product of plane rotations.
 * Callee contracts: gsl_blas_zgemm(NoTrans,NoTrans,1,A,B,0,C): C := A*B (documented BLAS contract, assumed) -- here a logged stub, so that what is decided is
 *   (1) every factor R handed to zgemm is exactly the plane rotation of C06's Rotate contract for the stored angle and phase of its pair (i,j):
 *       R_ii = R_jj = cos(th), R_ij = sin(th) e^{-i de}, R_ji = -conj(R_ij), identity elsewhere -- hence unitary (obligation: R^dagger R = 1 on the block);
 *   (2) the factors are multiplied onto the running product FROM THE LEFT in the order (0,1),(0,2),(1,2),(0,3),...: U = R_{d-2,d-1} ... R_{0,2} R_{0,1},
 *       which is the reverse of the order in which RotateToB1 applies Rotate(i,j,...) (C06.L2.order.*), so that RotateToB1 represents U^dagger A U (spec lemma);
 *   (3) data flow: each product is formed from the previous one, the returned matrix is the last product, the two scratch matrices are released, nothing else is.
 * D (job parameter) is the dimension; D = 7 must be rejected before anything is allocated. */
#include "l2_prelude.h"
#include "l2_gsl.h"
#include <SU_inc/dimension.h>
#define MAXD SQUIDS_MAX_HILBERT_DIM
typedef struct { R re, im; } cplx;
static cplx c_expi(R x){ cplx z={cos(x),sin(x)}; return z; }
static cplx c_scale(R a, cplx z){ cplx r={a*z.re,a*z.im}; return r; }
static cplx c_conj(cplx z){ cplx r={z.re,-z.im}; return r; }
static cplx c_neg(cplx z){ cplx r={-z.re,-z.im}; return r; }
static gsl_complex gsl_complex_rect(R x, R y){ gsl_complex z={{x,y}}; return z; }
static gsl_complex to_gsl(cplx c){ return gsl_complex_rect(c.re,c.im); }
static gsl_complex to_gsl_r(R c){ return gsl_complex_rect(c,0); }
typedef enum { CblasNoTrans=111, CblasTrans=112, CblasConjTrans=113 } CBLAS_TRANSPOSE_t;
struct Const { R th[MAXD][MAXD], de[MAXD][MAXD]; };
static int sq_thrown, n_bad_query;
#define SQ_THROW(...) do{ sq_thrown=1; return 0; }while(0)
static R Const_GetMixingAngle(const struct Const* p, size_t i, size_t j){ if(!(i<j && j<MAXD)) { n_bad_query++; return nondet_R(); } return p->th[i][j]; }
static R Const_GetPhase(const struct Const* p, size_t i, size_t j){ if(!(i<j && j<MAXD)) { n_bad_query++; return nondet_R(); } return p->de[i][j]; }
#define DD (D<=MAXD?(D>0?D:1):1)
static R dat[3][2*DD*DD]; static gsl_matrix_complex M[3]; static int n_alloc, n_free, freed[3];
static gsl_matrix_complex* gsl_matrix_complex_alloc(size_t a, size_t b){ int k=n_alloc<3?n_alloc:2; n_alloc++; M[k].size1=a; M[k].size2=b; M[k].tda=b; M[k].data=dat[k];
  for(int q=0;q<2*DD*DD;q++) dat[k][q]=nondet_R(); return &M[k]; }
static void gsl_matrix_complex_free(gsl_matrix_complex* m){ for(int k=0;k<3;k++) if(m==&M[k]) freed[k]++; n_free++; }
static void gsl_matrix_complex_set_identity(gsl_matrix_complex* m){ for(size_t i=0;i<m->size1;i++) for(size_t j=0;j<m->size2;j++) gsl_matrix_complex_set(m,i,j,gsl_complex_rect(i==j?1.0:0.0,0.0)); }
static void gsl_matrix_complex_set_zero(gsl_matrix_complex* m){ for(size_t i=0;i<m->size1;i++) for(size_t j=0;j<m->size2;j++) gsl_matrix_complex_set(m,i,j,gsl_complex_rect(0.0,0.0)); }
#define SQ_SWAP(a,b) do{ gsl_matrix_complex* t_=(a); (a)=(b); (b)=t_; }while(0)
/* ghost log of the products */
#define NP (DD*(DD-1)/2+1)
static const gsl_matrix_complex *zA[NP], *zB[NP], *zC[NP]; static int z_ok[NP], z_unitary[NP], n_z; static const struct Const* g_par;
static int exp_i[NP], exp_j[NP];
static int gsl_blas_zgemm(CBLAS_TRANSPOSE_t TA, CBLAS_TRANSPOSE_t TB, gsl_complex alpha, const gsl_matrix_complex* A, const gsl_matrix_complex* B, gsl_complex beta, gsl_matrix_complex* C){
  int k=n_z<NP?n_z:NP-1; zA[k]=A; zB[k]=B; zC[k]=C;
  int ok = TA==CblasNoTrans && TB==CblasNoTrans && alpha.dat[0]==1 && alpha.dat[1]==0 && beta.dat[0]==0 && beta.dat[1]==0 && A->size1==D && A->size2==D;
  int pi=exp_i[k], pj=exp_j[k]; R th=g_par->th[pi][pj], de=g_par->de[pi][pj]; R c=cos(th), s=sin(th), er=cos(-de), ei=sin(-de);
  for(int a=0;a<DD;a++) for(int b=0;b<DD;b++){ gsl_complex z=gsl_matrix_complex_get(A,a,b); R wr, wi;
    if(a==pi&&b==pi){ wr=c; wi=0; } else if(a==pj&&b==pj){ wr=c; wi=0; } else if(a==pi&&b==pj){ wr=s*er; wi=s*ei; } else if(a==pj&&b==pi){ wr=-(s*er); wi=s*ei; } else { wr=(a==b)?1.0:0.0; wi=0; }
    ok = ok && z.dat[0]==wr && z.dat[1]==wi; }
  z_ok[k]=ok;
  /* unitarity of the factor on its 2x2 block, from what was really stored: |R_ii|^2+|R_ji|^2 = 1, |R_ij|^2+|R_jj|^2 = 1, conj(R_ii) R_ij + conj(R_ji) R_jj = 0 */
  { gsl_complex p=gsl_matrix_complex_get(A,pi,pi), q=gsl_matrix_complex_get(A,pi,pj), r=gsl_matrix_complex_get(A,pj,pi), t=gsl_matrix_complex_get(A,pj,pj);
    z_unitary[k] = (p.dat[0]*p.dat[0]+p.dat[1]*p.dat[1]+r.dat[0]*r.dat[0]+r.dat[1]*r.dat[1]==1) && (q.dat[0]*q.dat[0]+q.dat[1]*q.dat[1]+t.dat[0]*t.dat[0]+t.dat[1]*t.dat[1]==1)
      && (p.dat[0]*q.dat[0]+p.dat[1]*q.dat[1]+r.dat[0]*t.dat[0]+r.dat[1]*t.dat[1]==0) && (p.dat[0]*q.dat[1]-p.dat[1]*q.dat[0]+r.dat[0]*t.dat[1]-r.dat[1]*t.dat[0]==0); }
  for(int q=0;q<2*DD*DD;q++) C->data[q]=nondet_R();          /* the product itself: BLAS contract, not evaluated */
  n_z++; return 0; }
static gsl_matrix_complex* GetTransformationMatrix(const struct Const* self, size_t dim){
//@BODY file=src/const.cpp sig=/Const::GetTransformationMatrix\s*\(\s*size_t\s+dim\s*\)\s*const/ rules=common,const_tm
}
int main(void){
  struct Const p; for(int i=0;i<MAXD;i++) for(int j=0;j<MAXD;j++){ p.th[i][j]=nondet_R(); p.de[i][j]=nondet_R(); } g_par=&p;
  int k=0; for(int j=1;j<DD;j++) for(int i=0;i<j;i++){ exp_i[k]=i; exp_j[k]=j; k++; }          /* the documented order: (0,1),(0,2),(1,2),(0,3),... */
  gsl_matrix_complex* U=GetTransformationMatrix(&p,D);
#if D>SQUIDS_MAX_HILBERT_DIM
  __CPROVER_assert(sq_thrown==1 && n_alloc==0 && n_z==0, "C06: a dimension above the supported maximum is rejected before anything is allocated");
#else
  __CPROVER_assert(sq_thrown==0 && n_bad_query==0, "C06: every supported dimension is accepted; angles and phases are queried for pairs i<j<dim only");
  __CPROVER_assert(n_z==k && n_alloc==3, "C06: one product per pair i<j<dim, three matrices allocated");
  int ok=1, uni=1, flow=1; const gsl_matrix_complex* cur=&M[0];
  for(int q=0;q<k;q++){ ok = ok && z_ok[q]; uni = uni && z_unitary[q]; flow = flow && zA[q]==&M[1] && zB[q]==cur && zC[q]!=cur && zC[q]!=&M[1]; cur=zC[q]; }
  __CPROVER_assert(ok, "C06: each factor is the plane rotation of its pair: cos(th) on the diagonal, sin(th) e^{-i de} at (i,j), minus its conjugate at (j,i), identity elsewhere");
  __CPROVER_assert(uni, "C06: each factor is unitary on its block");
  __CPROVER_assert(flow, "C06: every factor multiplies the running product from the left; products alternate between the two buffers");
  __CPROVER_assert(U==cur && n_free==2 && freed[1]==1 && ((cur==&M[0])?(freed[2]==1&&freed[0]==0):(freed[0]==1&&freed[2]==0)), "C06: the returned matrix is the last product; the factor matrix and the other buffer are released once, the result is not");
  if(k==0){ int id=1; for(int a=0;a<DD;a++) for(int b=0;b<DD;b++){ gsl_complex z=gsl_matrix_complex_get(U,a,b); id = id && z.dat[0]==((a==b)?1.0:0.0) && z.dat[1]==0; } __CPROVER_assert(id, "C06: without pairs the result is the identity"); }
#endif
  return 0;
}
