/* C06 / C14: the matrix-based rotation entry points of SU_vector (src/SUNalg.cpp) as call sequences over callee contracts:
 *   Rotate(U)            : rejects U whose size is not dim x dim before doing anything (C14), else GetGSLMatrix -> U^dagger M U (UCMU, C06.L2.ucmu) -> matrix constructor (C01)
 *   UTransform(em)       : GetGSLMatrix into a dim x dim scratch -> UCMU(em, scratch) -> matrix constructor            (= Rotate(em))
 *   UDaggerTransform(em) : the same with IUCMU (em M em^dagger)
 *   UTransform(v,scale)  : mv = scale*M(v), em = matrix_exponential(mv) (C07), then as UTransform(em): em^dagger M em; for scale = i s, Hermitian V: e^{-isV} M e^{isV}
 * Ghost call log; scratch holders are reset to dim x dim before use.  WHICH selects the function. */
#include <stddef.h>
typedef double R; R nondet_R(void); unsigned nondet_unsigned(void);
typedef struct { R dat[2]; } gsl_complex;
typedef struct { size_t size1, size2; int id; } gsl_matrix_complex;
struct holder { gsl_matrix_complex m; int resets; };
struct SU_vector { unsigned dim; int id; };
enum { K_RESET=1, K_GET_INTO, K_GET_NEW, K_SCALE, K_EXPM, K_UCMU, K_IUCMU, K_CTOR_M };
static int ev[12]; static const void *ea[12], *eb[12]; static size_t en[12]; static int nev, sq_thrown; static gsl_complex g_scale;
static void lg(int k,const void* a,const void* b,size_t n){ if(nev<12){ ev[nev]=k; ea[nev]=a; eb[nev]=b; en[nev]=n; } nev++; }
#define SQ_THROW(...) do{ sq_thrown=1; return; }while(0)
static void holder_reset(struct holder* h, size_t a, size_t b){ h->m.size1=a; h->m.size2=b; h->resets++; lg(K_RESET,h,0,a*1000+b); }
static void su_GetGSLMatrix_into(const struct SU_vector* v, struct holder* h){ lg(K_GET_INTO,v,h,h->m.size1*1000+h->m.size2); }
static gsl_matrix_complex NEWM={0,0,99};
static gsl_matrix_complex* su_GetGSLMatrix_new(const struct SU_vector* v){ NEWM.size1=v->dim; NEWM.size2=v->dim; lg(K_GET_NEW,v,&NEWM,0); return &NEWM; }
static void gsl_matrix_complex_scale_h(struct holder* h, gsl_complex s){ lg(K_SCALE,h,0,(s.dat[0]==g_scale.dat[0]&&s.dat[1]==g_scale.dat[1])?1:0); }
static void sq_matrix_exponential(struct holder* out, struct holder* in){ lg(K_EXPM,out,in,0); }
static void sq_UCMU(const void* U, const void* Mx){ lg(K_UCMU,U,Mx,0); }
static void sq_IUCMU(const void* U, const void* Mx){ lg(K_IUCMU,U,Mx,0); }
static void su_ctor_matrix(struct SU_vector* ret, const void* m){ lg(K_CTOR_M,ret,m,0); }
#define MPTR(h) ((const void*)(h))
static void UTransform_em(const struct SU_vector* self, struct SU_vector* ret, gsl_matrix_complex* em);
static void UDaggerTransform_em(const struct SU_vector* self, struct SU_vector* ret, gsl_matrix_complex* em);
static void Rotate_U(const struct SU_vector* self, struct SU_vector* ret, const gsl_matrix_complex* U){
//@BODY file=src/SUNalg.cpp sig=/SU_vector\s+SU_vector::Rotate\s*\(\s*const\s+gsl_matrix_complex\s*\*\s*U\s*\)\s*const/ rules=common,holders,suwrap
}
static void UTransform_em(const struct SU_vector* self, struct SU_vector* ret, gsl_matrix_complex* em){
  struct holder mu_={{0,0,31},0};
//@BODY file=src/SUNalg.cpp sig=/SU_vector\s+SU_vector::UTransform\s*\(\s*gsl_matrix_complex\s*\*\s*em\s*\)\s*const/ rules=common,holders,suwrap
}
static void UDaggerTransform_em(const struct SU_vector* self, struct SU_vector* ret, gsl_matrix_complex* em){
  struct holder mu_={{0,0,31},0};
//@BODY file=src/SUNalg.cpp sig=/SU_vector\s+SU_vector::UDaggerTransform\s*\(\s*gsl_matrix_complex\s*\*\s*em\s*\)\s*const/ rules=common,holders,suwrap
}
static void UTransform_v(const struct SU_vector* self, struct SU_vector* ret, const struct SU_vector* v, gsl_complex scale){
  struct holder mu_={{0,0,31},0}, mv_={{0,0,32},0}, em_={{0,0,33},0};
//@BODY file=src/SUNalg.cpp sig=/SU_vector\s+SU_vector::UTransform\s*\(\s*const\s+SU_vector&\s*v\s*,\s*gsl_complex\s+scale\s*\)\s*const/ rules=common,holders,suwrap
}
int main(void){
  struct SU_vector a={0,1}, r={0,2}, v={0,3}; a.dim=nondet_unsigned(); __CPROVER_assume(a.dim>=2 && a.dim<=6); v.dim=a.dim;
  gsl_matrix_complex U={0,0,50}; U.size1=nondet_unsigned(); U.size2=nondet_unsigned(); __CPROVER_assume(U.size1<=8 && U.size2<=8);
  size_t dd=(size_t)a.dim*1000+a.dim;
#if WHICH==1
  Rotate_U(&a,&r,&U);
  int match = U.size1==a.dim && U.size2==a.dim;
  __CPROVER_assert((sq_thrown==1)==!match, "C14 C06: Rotate(U) raises an exception exactly when U is not dim x dim");
  __CPROVER_assert(!sq_thrown || nev==0, "C14: nothing is evaluated or modified when Rotate(U) rejects its argument");
  __CPROVER_assert(sq_thrown || (nev==3 && ev[0]==K_GET_NEW && ea[0]==&a && ev[1]==K_UCMU && ea[1]==&U && eb[1]==&NEWM && ev[2]==K_CTOR_M && ea[2]==&r && eb[2]==&NEWM), "C06: Rotate(U) = matrix constructor of U^dagger M(this) U");
#elif WHICH==2 || WHICH==3
  __CPROVER_assume(U.size1==a.dim && U.size2==a.dim);
#if WHICH==2
  UTransform_em(&a,&r,&U); int kk=K_UCMU;
#else
  UDaggerTransform_em(&a,&r,&U); int kk=K_IUCMU;
#endif
  __CPROVER_assert(nev==4 && ev[0]==K_RESET && en[0]==dd && ev[1]==K_GET_INTO && ea[1]==&a && eb[1]==ea[0] && en[1]==dd, "C06: M(this) is written into a dim x dim scratch matrix");
  __CPROVER_assert(ev[2]==kk && ea[2]==&U && eb[2]==ea[0] && ev[3]==K_CTOR_M && ea[3]==&r && eb[3]==ea[0], "C06: UTransform(em) = em^dagger M em, UDaggerTransform(em) = em M em^dagger, returned through the matrix constructor");
#else
  gsl_complex sc={{nondet_R(),nondet_R()}}; g_scale=sc;
  UTransform_v(&a,&r,&v,sc);
  int ok = nev==9, nres=0; const void *hmv=0,*hmu=0,*hem=0;
  /* three scratch matrices reset to dim x dim before they are used; M(v) into one, M(this) into another */
  for(int k=0;k<9&&k<nev;k++){ if(ev[k]==K_RESET){ nres++; ok = ok && en[k]==dd; } if(ev[k]==K_GET_INTO && ea[k]==&v) hmv=eb[k]; if(ev[k]==K_GET_INTO && ea[k]==&a) hmu=eb[k]; if(ev[k]==K_EXPM) hem=ea[k]; }
  __CPROVER_assert(ok && nres==3 && hmv && hmu && hem && hmv!=hmu && hem!=hmv && hem!=hmu, "C06 C07: three distinct dim x dim scratch matrices hold M(v), M(this) and the exponential");
  int iv=-1,is=-1,ie=-1,iu=-1,ic=-1,im=-1; for(int k=0;k<9&&k<nev;k++){ if(ev[k]==K_GET_INTO&&ea[k]==&v) iv=k; if(ev[k]==K_GET_INTO&&ea[k]==&a) im=k; if(ev[k]==K_SCALE) is=k; if(ev[k]==K_EXPM) ie=k; if(ev[k]==K_UCMU) iu=k; if(ev[k]==K_CTOR_M) ic=k; }
  __CPROVER_assert(iv>=0 && is>iv && ie>is && iu>ie && im>=0 && im<iu && ic==nev-1 && ic>iu, "C06 C07: order: M(v), scale, exponential, sandwich, construct");
  __CPROVER_assert(ea[is]==hmv && en[is]==1 && eb[ie]==hmv && ea[iu]==hem && eb[iu]==hmu && ea[ic]==&r && eb[ic]==hmu, "C06 C07: em = exp(scale*M(v)); result = em^dagger M(this) em");
#endif
  return 0;
}
