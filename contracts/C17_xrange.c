/* C17: SQuIDS::Set_xrange (both overloads), src/SQuIDS.cpp.
 * C translation: members x (std::vector<double>, already sized nx by ini()) and nx are parameters;
 * std::string type -> const char* compared with SQ_STREQ; exp/log -> uninterpreted functions
 * (libm is in the trusted base); std::is_sorted -> declared function with assumed contract. */
#include "sq_prelude.h"
#ifndef NXMAX
#define NXMAX 100000u
#endif
double __CPROVER_uninterpreted_log(double);
double __CPROVER_uninterpreted_exp(double);
#define log(a) __CPROVER_uninterpreted_log(a)
#define exp(a) __CPROVER_uninterpreted_exp(a)
/* std::string compared against literals: strings abstracted to tokens, one per distinct literal (faithful for ==) */
enum { TOK_other=0, TOK_linear, TOK_Linear, TOK_lin, TOK_Lin, TOK_log, TOK_Log };
#undef SQ_RET
#define SQ_RET
#define GKC(n) (gk<(n)?gk:0u)

#define LIN(k)  (xi+(xf-xi)*(double)(k)/(double)(nx-1))
#define LOGX(k) (__CPROVER_uninterpreted_exp(__CPROVER_uninterpreted_log(xi)+(__CPROVER_uninterpreted_log(xf)-__CPROVER_uninterpreted_log(xi))*(double)(k)/(double)(nx-1)))

int in_scale; /* harness-chosen: 0 linear 1 log 2 unknown; fixed before the call so the contract can name it */

void Set_xrange3(double* x, unsigned nx, double xi, double xf, int type)
__CPROVER_requires(nx>=2 && nx<=NXMAX && __CPROVER_is_fresh(x, nx*sizeof(double)))
__CPROVER_requires(sq_thrown==0 && xi<xf)
__CPROVER_requires((in_scale==0) == (type==TOK_linear||type==TOK_Linear||type==TOK_lin||type==TOK_Lin))
__CPROVER_requires((in_scale==1) == (type==TOK_log||type==TOK_Log))
__CPROVER_assigns(sq_thrown, __CPROVER_object_whole(x))
__CPROVER_ensures(sq_thrown==0 || sq_thrown==1)
__CPROVER_ensures((sq_thrown==1) == (in_scale>=2 || in_scale<0 || (in_scale==1 && xi<1.0e-10)))
__CPROVER_ensures(sq_thrown==1 && gk<nx ==> SQ_SAME(x[gk], __CPROVER_old(x[GKC(nx)])))   /* nothing written when rejected */
{
//@BODY file=src/SQuIDS.cpp sig=/void\s+SQuIDS::Set_xrange\s*\(\s*double/ rules=common
//@SUB /type\s*==\s*"([A-Za-z]+)"/type==TOK_\1/ min=6
//@LOOP 0 __CPROVER_assigns(e1, __CPROVER_object_whole(x))
//@+ __CPROVER_loop_invariant(e1<=nx)
//@+ __CPROVER_decreases(nx-e1)
//@LOOP 1 __CPROVER_assigns(e1, __CPROVER_object_whole(x))
//@+ __CPROVER_loop_invariant(e1<=nx)
//@+ __CPROVER_decreases(nx-e1)
}

/* std::is_sorted: assumed contract (libstdc++), result == "no adjacent descent" in ghost-index form */
_Bool sq_is_sorted(const double* b, size_t n)
__CPROVER_requires(n<=NXMAX && __CPROVER_r_ok(b, n*sizeof(double)))
__CPROVER_assigns()
__CPROVER_ensures(__CPROVER_return_value ==> (gk < n && gk+1 < n ==> !(b[gk+1] < b[gk])))
;

/* std::vector<double>::operator=(const vector&) for equal sizes: assumed contract (libstdc++) */
void sq_vassign(double* dst, const double* src, size_t n)
__CPROVER_requires(__CPROVER_w_ok(dst, n*sizeof(double)) && __CPROVER_r_ok(src, n*sizeof(double)))
__CPROVER_assigns(__CPROVER_object_whole(dst))
__CPROVER_ensures(gk<n ==> SQ_SAME(dst[gk], src[gk]))
__CPROVER_ensures(gk2<n ==> SQ_SAME(dst[gk2], src[gk2]))
;
#define SQ_VASSIGN(d,s,n) sq_vassign(d,s,n)
/* iterator pair [b,e) of the argument vector -> (pointer, count) */
#define SQ_IS_SORTED(b,e) sq_is_sorted((b),(size_t)((e)-(b)))

/* vector overload: xs has xs_n elements; x=xs is a vector copy-assignment (SQ_VASSIGN: element copy) */
void Set_xrange1(double* x, unsigned nx, const double* xs, size_t xs_n)
__CPROVER_requires(nx>=1 && nx<=NXMAX && __CPROVER_is_fresh(x, nx*sizeof(double)))
__CPROVER_requires(xs_n>=1 && xs_n<=NXMAX && __CPROVER_is_fresh(xs, xs_n*sizeof(double)))
__CPROVER_requires(sq_thrown==0)
__CPROVER_assigns(sq_thrown, __CPROVER_object_whole(x))
__CPROVER_ensures(xs_n!=nx ==> sq_thrown==1)
__CPROVER_ensures(sq_thrown==1 && gk<nx ==> SQ_SAME(x[gk], __CPROVER_old(x[GKC(nx)])))
__CPROVER_ensures(sq_thrown==0 ==> xs_n==nx && (gk<nx ==> SQ_SAME(x[gk], xs[gk])))
__CPROVER_ensures(sq_thrown==0 && gk<nx-1 && gk2==gk+1 ==> !(x[gk2]<x[gk]))     /* stored grid is non-decreasing */
{
//@BODY file=src/SQuIDS.cpp sig=/void\s+SQuIDS::Set_xrange\s*\(\s*const\s+std::vector/ rules=common
//@SUB /xs\.size\(\)/xs_n/ min=1
//@SUB /xs\.end\(\)/(xs+xs_n)/ min=0
//@SUB /xs\.begin\(\)/xs/ min=1
//@SUB /std::is_sorted\s*\(/SQ_IS_SORTED(/ min=1
//@SUB /(?<![\w.>])x\s*=\s*xs\s*;/SQ_VASSIGN(x,xs,xs_n);/ min=1
}

#ifdef BOUNDED
/* bounded stand-in for the node values (FP congruence between loop counter and ghost index is out of
 * reach of the SAT back end, see DESIGN 7): nx<=NXB, loops fully unwound, one assertion per concrete k */
double in_xs[NXB]; unsigned in_nx; double in_a, in_b; int in_which;
void h_bounded(void){
  in_nx=nondet_unsigned(); in_a=nondet_double(); in_b=nondet_double(); in_which=nondet_int();
  __CPROVER_assume(in_nx>=2 && in_nx<=NXB && in_a<in_b && !__CPROVER_isinfd(in_a) && !__CPROVER_isinfd(in_b));
  __CPROVER_assume(in_which==0 || in_which==1);
  int type = in_which==0 ? TOK_lin : TOK_Log;
  in_scale=in_which;
  for(unsigned k=0;k<NXB;k++) in_xs[k]=nondet_double();
  sq_thrown=0;
  Set_xrange3(in_xs,in_nx,in_a,in_b,type);
  double xi=in_a, xf=in_b; unsigned nx=in_nx;
  if(sq_thrown==0){
    for(unsigned k=0;k<NXB;k++) if(k<nx){
      if(in_which==0) __CPROVER_assert(SQ_SAME(in_xs[k], LIN(k)), "Set_xrange.bounded.linear_node_formula");
      else            __CPROVER_assert(SQ_SAME(in_xs[k], LOGX(k)), "Set_xrange.bounded.log_node_formula");
    }
    if(in_which==0 && !__CPROVER_isinfd(in_b-in_a)) __CPROVER_assert(in_xs[0]==in_a, "Set_xrange.bounded.first_node_is_a");
  }
  __CPROVER_assert(0, "REACH end of harness");
}
#endif

void h_Set_xrange3(void){
  double* x; unsigned nx; double xi, xf; int type;
  in_scale=nondet_int();
  Set_xrange3(x,nx,xi,xf,type);
  __CPROVER_assert(0, "REACH end of harness");
}
void h_Set_xrange1(void){
  double* x; unsigned nx; const double* xs; size_t n;
  Set_xrange1(x,nx,xs,n);
  __CPROVER_assert(0, "REACH end of harness");
}
