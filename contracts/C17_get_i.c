/* C17: SQuIDS::Get_i (src/SQuIDS.cpp) -- DFCC contract, loop contract, grid length unbounded.
 * C translation: method -> free function; members x (std::vector<double>) and nx become parameters.
 * Reads of the grid go through SQ_RD (read + assume not-NaN): instantiation of the precondition
 * "no grid value is NaN" at each read (DESIGN 3.2). */
#include "sq_prelude.h"
#ifndef NXMAX
#define NXMAX 1000000u
#endif
static inline double SQ_RD(const double* x, unsigned k){ double v=x[k]; __CPROVER_assume(!SQ_ISNAN(v)); return v; }
#undef SQ_RET
#define SQ_RET 0

unsigned Get_i(const double* x, unsigned nx, double xi)
__CPROVER_requires(nx>=2 && nx<=NXMAX && __CPROVER_is_fresh(x, nx*sizeof(double)))
__CPROVER_requires(sq_thrown==0 && !SQ_ISNAN(xi))
__CPROVER_requires(!SQ_ISNAN(x[0]) && !SQ_ISNAN(x[nx-1]))
__CPROVER_assigns(sq_thrown)
/* from the property: outside [a,b] an error, otherwise i<=nx-2 with x_i <= x <= x_{i+1} */
__CPROVER_ensures((sq_thrown==1) == (xi<x[0] || xi>x[nx-1]))
__CPROVER_ensures(sq_thrown==0 || sq_thrown==1)
__CPROVER_ensures(sq_thrown==0 ==> (__CPROVER_return_value<=nx-2 && x[__CPROVER_return_value]<=xi && xi<=x[__CPROVER_return_value+1]))
{
//@BODY file=src/SQuIDS.cpp sig=/unsigned\s+int\s+SQuIDS::Get_i\s*\(/ rules=common,minmax
//@SUB /(?<![\w.>])x\[([^\]]+)\]/SQ_RD(x,\1)/ min=2
//@LOOP 0 __CPROVER_loop_invariant(nl<nr && nr<=nx-1 && x[nl]<=xi && xi<=x[nr])
//@+ __CPROVER_decreases(nr-nl)
}

#ifdef BOUNDED
/* bounded stand-in used only to obtain a *reachable* witness for replay: whole grid symbolic, nx<=NXB */
double in_x[NXB]; unsigned in_nx; double in_xi; unsigned out_ret; int out_thrown;
void h_bounded(void){
  in_nx=nondet_unsigned(); in_xi=nondet_double();
  __CPROVER_assume(in_nx>=2 && in_nx<=NXB && !SQ_ISNAN(in_xi));
  for(unsigned k=0;k<NXB;k++){ in_x[k]=nondet_double(); __CPROVER_assume(!SQ_ISNAN(in_x[k]) && !__CPROVER_isinfd(in_x[k])); }
  for(unsigned k=0;k+1<NXB;k++) if(k+1<in_nx) __CPROVER_assume(in_x[k]<in_x[k+1]);
  sq_thrown=0;
  out_ret=Get_i(in_x,in_nx,in_xi);
  out_thrown=sq_thrown;
  __CPROVER_assert((sq_thrown==1) == (in_xi<in_x[0] || in_xi>in_x[in_nx-1]), "Get_i.bounded.thrown_iff_outside");
  __CPROVER_assert(sq_thrown!=0 || (out_ret<=in_nx-2 && in_x[out_ret]<=in_xi && in_xi<=in_x[out_ret+1]), "Get_i.bounded.bracket");
  __CPROVER_assert(0, "REACH end of harness");
}
#endif

void h_Get_i(void){
  const double* x; unsigned nx; double xi;
  Get_i(x,nx,xi);
  __CPROVER_assert(0, "REACH end of harness");
}
