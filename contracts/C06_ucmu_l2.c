/* C06 Layer 2: gsl_matrix_complex_change_basis_UCMU / _IUCMU (src/SUNalg.cpp) -- U^dagger M U and U M U^dagger through BLAS.
 * gsl_blas_zgemm by its documented contract  C := alpha*op(A)*op(B) + beta*C  (ASSUMED; executable spec below); the thread_local
 * holders are plain matrices here (reset(n,n) = a fresh n x n matrix; storage reuse is Layer 1).  U and M fully symbolic (U need not be unitary).
 * Parameters: D (2,3,4), WHAT: 1 UCMU gives U^dagger M U, 2 IUCMU gives U M U^dagger. */
#include "l2_prelude.h"
#include "gellmann.h"
#include "l2_gsl.h"
typedef enum { CblasNoTrans=111, CblasTrans=112, CblasConjTrans=113 } CBLAS_TRANSPOSE_t;
static gsl_complex gsl_complex_rect(R x, R y){ gsl_complex z={{x,y}}; return z; }
struct holder { gsl_matrix_complex m; };
static void holder_reset(struct holder* h, unsigned a, unsigned b){ h->m.size1=a; h->m.size2=b; h->m.tda=b; for(int i=0;i<2*D*D;i++) h->m.data[i]=nondet_R(); }
#define HOLDERS3 R U1_d[2*D*D], U2_d[2*D*D], T1_d[2*D*D]; struct holder U1_={{D,D,D,U1_d}}, U2_={{D,D,D,U2_d}}, T1_={{D,D,D,T1_d}};
static void gsl_matrix_complex_memcpy(gsl_matrix_complex* dst, const gsl_matrix_complex* src){ for(size_t i=0;i<src->size1;i++) for(size_t j=0;j<src->size2;j++) gsl_matrix_complex_set(dst,i,j,gsl_matrix_complex_get(src,i,j)); }
static gsl_complex opel(CBLAS_TRANSPOSE_t t, const gsl_matrix_complex* A, size_t i, size_t k){   /* element (i,k) of op(A) */
  if(t==CblasNoTrans) return gsl_matrix_complex_get(A,i,k);
  gsl_complex z=gsl_matrix_complex_get(A,k,i); if(t==CblasConjTrans) z.dat[1]=-z.dat[1]; return z; }
static int gsl_blas_zgemm(CBLAS_TRANSPOSE_t TA, CBLAS_TRANSPOSE_t TB, gsl_complex alpha, const gsl_matrix_complex* A, const gsl_matrix_complex* B, gsl_complex beta, gsl_matrix_complex* C){
  R out[2*D*D];
  for(size_t i=0;i<D;i++) for(size_t j=0;j<D;j++){ R sr=0, si=0;
    for(size_t k=0;k<D;k++){ gsl_complex a=opel(TA,A,i,k), b=opel(TB,B,k,j); sr+=a.dat[0]*b.dat[0]-a.dat[1]*b.dat[1]; si+=a.dat[0]*b.dat[1]+a.dat[1]*b.dat[0]; }
    gsl_complex c=gsl_matrix_complex_get(C,i,j);
    out[2*(i*D+j)]  =alpha.dat[0]*sr-alpha.dat[1]*si + beta.dat[0]*c.dat[0]-beta.dat[1]*c.dat[1];
    out[2*(i*D+j)+1]=alpha.dat[0]*si+alpha.dat[1]*sr + beta.dat[0]*c.dat[1]+beta.dat[1]*c.dat[0]; }
  for(size_t i=0;i<D;i++) for(size_t j=0;j<D;j++){ gsl_complex z={{out[2*(i*D+j)],out[2*(i*D+j)+1]}}; gsl_matrix_complex_set(C,i,j,z); }
  return 0; }

static void UCMU(const gsl_matrix_complex* U, gsl_matrix_complex* M){
  HOLDERS3
//@BODY file=src/SUNalg.cpp sig=/void\s+gsl_matrix_complex_change_basis_UCMU\s*\(/ rules=common,holders
}
static void IUCMU(gsl_matrix_complex* U, gsl_matrix_complex* M){
  HOLDERS3
//@BODY file=src/SUNalg.cpp sig=/void\s+gsl_matrix_complex_change_basis_IUCMU\s*\(/ rules=common,holders
}
int main(void){
  R ud[2*D*D], md[2*D*D], m0[2*D*D];
  for(int i=0;i<2*D*D;i++){ ud[i]=nondet_R(); md[i]=nondet_R(); m0[i]=md[i]; }
  gsl_matrix_complex U={D,D,D,ud}, M={D,D,D,md};
  struct mat MU, MM, E;
  for(int i=0;i<D;i++) for(int j=0;j<D;j++){ MU.re[i][j]=ud[2*(i*D+j)]; MU.im[i][j]=ud[2*(i*D+j)+1]; MM.re[i][j]=m0[2*(i*D+j)]; MM.im[i][j]=m0[2*(i*D+j)+1]; }
  struct mat Ud=mdagger(&MU);
#if WHAT==1
  UCMU(&U,&M);
  { struct mat T=mmul(&MM,&MU); E=mmul(&Ud,&T); }           /* U^dagger M U */
#else
  IUCMU(&U,&M);
  { struct mat T=mmul(&MM,&Ud); E=mmul(&MU,&T); }           /* U M U^dagger */
#endif
  for(int i=0;i<D;i++) for(int j=0;j<D;j++){
    __CPROVER_assert(md[2*(i*D+j)]==E.re[i][j], "change of basis .re"); __CPROVER_assert(md[2*(i*D+j)+1]==E.im[i][j], "change of basis .im"); }
  return 0;
}
