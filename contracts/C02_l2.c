/* C02 Layer 2: iCommutatorProxy::compute, ACommutatorProxy::compute (ProxyImpl.h) with the generated kernels
 * iConmutatorSU{d}.txt / AnticonmutatorSU{d}.txt, and SUTrace -- functional postconditions in real arithmetic.
 * Compile-time parameters: D (dimension), KIND (1 commutator, 2 anticommutator, 3 trace), MODE (1 generator
 * instantiation IA / optional IB, 2 linearity lemma in the first argument, 3 linearity lemma of the spec side). */
#include "l2_prelude.h"
#include "gellmann.h"
#define N (D*D)
int sq_thrown;
#define SQ_THROW(...) do{ sq_thrown=1; return SQ_RET; }while(0)
#define SQ_AXIOM(e)   __CPROVER_assert((e), "SQUIDS_COMPILER_ASSUME axiom must be true")
#define SQUIDS_POINTER_IS_ALIGNED(p,a) do{}while(0)
#define SQ_AlignedStorage 4
struct SU_vector { unsigned dim; unsigned size; R* components; };
struct vw { unsigned dim; R* components; };   /* detail::vector_wrapper<IncrementWrapper> on a zeroed target */
#define SQ_RET

static void icomm_compute(struct vw suv_new, struct SU_vector suv1, struct SU_vector suv2){
//@BODY file=include/SQuIDS/detail/ProxyImpl.h sig=/void\s+iCommutatorProxy::compute\s*\(/ rules=common
//@SUB /#include\s+"\.\.\/SU_inc\/([A-Za-z0-9_]+\.txt)"/#include "SU_inc_l2\/\1"/ min=1
}
static void acomm_compute(struct vw suv_new, struct SU_vector suv1, struct SU_vector suv2){
//@BODY file=include/SQuIDS/detail/ProxyImpl.h sig=/void\s+ACommutatorProxy::compute\s*\(/ rules=common
//@SUB /#include\s+"\.\.\/SU_inc\/([A-Za-z0-9_]+\.txt)"/#include "SU_inc_l2\/\1"/ min=1
}
#undef SQ_RET
#define SQ_RET 0
static const unsigned Flags=0;
static R SUTrace(const struct SU_vector* suv1_, const struct SU_vector* suv2_){
//@BODY file=include/SQuIDS/detail/ProxyImpl.h sig=/double\s+SUTrace\s*\(\s*const\s+SU_vector&\s*suv1_/ rules=common
//@SUB /auto\s+(suv[12])\s*=\s*detail::SU_vector_operator_access::make_view\(\s*(suv[12]_)\s*\)\s*;/struct SU_vector \1=*\2;/ min=2
//@SUB /auto\s+(dim|size)\s*=/unsigned \1=/ min=2
//@SUB /detail::AlignedStorage/SQ_AlignedStorage/ min=1
}

R in_lam;
int main(void){
  L2_SYMBOLS();
  R a[N], a2[N], as[N], b[N], c[N], c2[N], c3[N];
  in_lam=nondet_R();
  for(int i=0;i<N;i++){
#if MODE==1 && defined(IA)
    a[i]=(i==IA)?1.0:0.0;
#else
    a[i]=nondet_R();
#endif
#ifdef IB
    b[i]=(i==IB)?1.0:0.0;
#else
    b[i]=nondet_R();
#endif
    a2[i]=nondet_R(); as[i]=a[i]+in_lam*a2[i]; c[i]=0; c2[i]=0; c3[i]=0;
  }
  struct SU_vector A={D,N,a}, A2={D,N,a2}, AS={D,N,as}, B={D,N,b};
  struct vw C={D,c}, C2={D,c2}, C3={D,c3};
  sq_thrown=0;
#if MODE==1
  struct mat MA=toMatrix(a), MB=toMatrix(b);
  struct mat P=mmul(&MA,&MB), Q=mmul(&MB,&MA);
#if KIND==1
  icomm_compute(C,A,B);
  struct mat MC=toMatrix(c);
  for(int i=0;i<D;i++) for(int j=0;j<D;j++){      /* i(P-Q) = -(Pim-Qim) + i(Pre-Qre) */
    __CPROVER_assert(MC.re[i][j]==-(P.im[i][j]-Q.im[i][j]), "icomm.re");
    __CPROVER_assert(MC.im[i][j]==(P.re[i][j]-Q.re[i][j]), "icomm.im");
  }
#elif KIND==2
  acomm_compute(C,A,B);
  struct mat MC=toMatrix(c);
  for(int i=0;i<D;i++) for(int j=0;j<D;j++){
    __CPROVER_assert(MC.re[i][j]==P.re[i][j]+Q.re[i][j], "acomm.re");
    __CPROVER_assert(MC.im[i][j]==P.im[i][j]+Q.im[i][j], "acomm.im");
  }
#else
  R t=SUTrace(&A,&B);
  R tr=0; for(int i=0;i<D;i++) tr+=P.re[i][i];
  R ti=0; for(int i=0;i<D;i++) ti+=P.im[i][i];
  __CPROVER_assert(t==tr, "trace.re");
  __CPROVER_assert(ti==0, "trace.im(spec)");
#endif
  __CPROVER_assert(sq_thrown==0, "no exception for supported dimension");
#elif MODE==2
#if KIND==1
  icomm_compute(C,A,B); icomm_compute(C2,A2,B); icomm_compute(C3,AS,B);
#elif KIND==2
  acomm_compute(C,A,B); acomm_compute(C2,A2,B); acomm_compute(C3,AS,B);
#else
  c[0]=SUTrace(&A,&B); c2[0]=SUTrace(&A2,&B); c3[0]=SUTrace(&AS,&B);
#endif
  for(int i=0;i<N;i++) __CPROVER_assert(c3[i]==c[i]+in_lam*c2[i], "linear in first argument");
#else
  /* spec side: toMatrix is linear */
  struct mat M1=toMatrix(a), M2=toMatrix(a2), M3=toMatrix(as);
  for(int i=0;i<D;i++) for(int j=0;j<D;j++){
    __CPROVER_assert(M3.re[i][j]==M1.re[i][j]+in_lam*M2.re[i][j], "toMatrix linear re");
    __CPROVER_assert(M3.im[i][j]==M1.im[i][j]+in_lam*M2.im[i][j], "toMatrix linear im");
  }
#endif
  return 0;
}
