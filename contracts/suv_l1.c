/* Layer 1: the life cycle of SU_vector (constructors, destructor, copy/move assignment, SetBackingStore, compound
 * assignment, ==) under DFCC contracts -- C08 (value semantics / ownership), C14 (guards), C15 (memory safety, ledger),
 * C16 (allocation failure).  Representation invariant SU_VALID and the abstract allocator contracts: spec/su_l1.h.
 * Every function is enforced from harness-built operands: arbitrary valid vectors (empty / owning / externally backed,
 * any supported dimension) in the alias patterns {disjoint, same object, shared external buffer}.  History quantifier:
 * the invariant is all an operation assumes, so preservation by every operation is an induction over histories. */
#include "su_l1.h"
#undef SQ_RET
#define SQ_RET
#define TABLES __CPROVER_object_whole(sq_blk_off), __CPROVER_object_whole(sq_blk_lib)

/* ---- constructors ------------------------------------------------------------------------------------ */
void su_ctor_default(struct SU_vector* self)
__CPROVER_requires(__CPROVER_w_ok(self, sizeof(*self)))
__CPROVER_assigns(*self)
__CPROVER_ensures(self->dim==0 && self->size==0 && self->components==NULL && !self->isinit && !self->isinit_d)
{
//@BODY file=src/SUNalg.cpp sig=/SU_vector::SU_vector\s*\(\s*\)/ part=all rules=common,suv_method
}

void su_ctor_copy(struct SU_vector* self, const struct SU_vector* V)
__CPROVER_requires(__CPROVER_w_ok(self, sizeof(*self)) && __CPROVER_r_ok(V, sizeof(*V)) && SU_VALID(V) && sq_thrown==0 && SQ_LEDGER_OK)
__CPROVER_assigns(*self, ALLOC_FRAME)
__CPROVER_ensures(sq_thrown==0 || sq_thrown==2)
__CPROVER_ensures(sq_thrown==2 ==> sq_live==__CPROVER_old(sq_live))
__CPROVER_ensures(sq_thrown==0 ==> (SU_VALID(self) && SU_VALID(V) && self->dim==V->dim && self->size==V->size
                   && self->isinit==(V->isinit||V->isinit_d) && !self->isinit_d))
__CPROVER_ensures(sq_thrown==0 && self->isinit ==> !__CPROVER_same_object(self->components, V->components))   /* copies are independent */
__CPROVER_ensures(sq_thrown==0 && self->isinit && gk<self->size ==> SQ_SAME(self->components[gk], V->components[gk]))
__CPROVER_ensures(sq_thrown==0 ==> sq_live==__CPROVER_old(sq_live)+(self->isinit?1:0))
{
//@BODY file=src/SUNalg.cpp sig=/SU_vector::SU_vector\s*\(\s*const\s+SU_vector&\s*V\s*\)/ part=all rules=common,suv_method
}

void su_ctor_move(struct SU_vector* self, struct SU_vector* V)
__CPROVER_requires(__CPROVER_w_ok(self, sizeof(*self)) && __CPROVER_rw_ok(V, sizeof(*V)) && SU_VALID(V) && self!=V)
__CPROVER_assigns(*self, *V)
__CPROVER_ensures(SU_VALID(self) && SU_VALID(V))
__CPROVER_ensures(self->dim==__CPROVER_old(V->dim) && self->size==__CPROVER_old(V->size) && self->components==__CPROVER_old(V->components)
                   && self->isinit==__CPROVER_old(V->isinit) && self->isinit_d==__CPROVER_old(V->isinit_d) && self->ptr_offset==__CPROVER_old(V->ptr_offset))
__CPROVER_ensures(__CPROVER_old(V->isinit) ==> (!V->isinit && !V->isinit_d && V->dim==0 && V->size==0))      /* a self-owned source is left empty */
__CPROVER_ensures(!__CPROVER_old(V->isinit) ==> (V->dim==__CPROVER_old(V->dim) && V->components==__CPROVER_old(V->components) && V->isinit_d==__CPROVER_old(V->isinit_d)))
__CPROVER_ensures(!(self->isinit && V->isinit))                                                              /* never two owners */
{
//@BODY file=src/SUNalg.cpp sig=/SU_vector::SU_vector\s*\(\s*SU_vector&&\s*V\s*\)/ part=all rules=common,suv_method
}

/* SU_vector(unsigned d, double* comp): external storage */
void su_ctor_ext(struct SU_vector* self, unsigned int d, double* comp)
__CPROVER_requires(__CPROVER_w_ok(self, sizeof(*self)) && sq_thrown==0)
__CPROVER_assigns(*self, sq_thrown)
__CPROVER_ensures(sq_thrown==0 || sq_thrown==1)
__CPROVER_ensures((sq_thrown==1) == (d==1 || d>SQ_MAXD))                    /* C14: dimension 1 and above 6 are rejected */
__CPROVER_ensures(sq_thrown==0 ==> (self->dim==d && self->size==d*d && self->components==comp && !self->isinit && self->isinit_d))
{
//@BODY file=src/SUNalg.cpp sig=/SU_vector::SU_vector\s*\(\s*unsigned\s+int\s+d\s*,\s*double\s*\*\s*comp\s*\)/ part=all rules=common,suv_method
}

/* explicit SU_vector(unsigned d) */
void su_ctor_sized(struct SU_vector* self, unsigned int d)
SU_CTOR_SIZED_CONTRACT
{
//@BODY file=src/SUNalg.cpp sig=/SU_vector::SU_vector\s*\(\s*unsigned\s+int\s+d\s*\)/ part=all rules=common,suv_method
}

/* SU_vector(const std::vector<double>& comp): comp -> (comp_d, comp_n); sqrt on an integer-valued double assumed correctly rounded */
unsigned sq_isqrt(size_t n)            /* (unsigned)sqrt((double)n): ASSUMED contract: floor of the square root for n<=2^32 */
__CPROVER_requires(n<=100)
__CPROVER_assigns()
/* floor(sqrt(n)) for n<=100 as a table of ranges (a multiplication in the contract makes the SAT problem hard for no reason) */
__CPROVER_ensures(__CPROVER_return_value == (n<1?0u: n<4?1u: n<9?2u: n<16?3u: n<25?4u: n<36?5u: n<49?6u: n<64?7u: n<81?8u: n<100?9u: 10u))
;
void su_ctor_list(struct SU_vector* self, const double* comp_d, size_t comp_n)
__CPROVER_requires(__CPROVER_w_ok(self, sizeof(*self)) && sq_thrown==0 && SQ_LEDGER_OK && comp_n<=64 && __CPROVER_r_ok(comp_d, (comp_n>0?comp_n:1)*sizeof(double)))
__CPROVER_assigns(*self, ALLOC_FRAME)
__CPROVER_ensures(sq_thrown==0 || sq_thrown==1 || sq_thrown==2)
__CPROVER_ensures(sq_thrown!=2 ==> ((sq_thrown==1) == !(comp_n==4 || comp_n==9 || comp_n==16 || comp_n==25 || comp_n==36 || comp_n==0)))
__CPROVER_ensures(sq_thrown!=0 ==> sq_live==__CPROVER_old(sq_live))                                          /* C15: nothing leaked when construction fails */
__CPROVER_ensures(sq_thrown==0 ==> (self->size==comp_n && self->dim*self->dim==comp_n && self->isinit && !self->isinit_d && sq_live==__CPROVER_old(sq_live)+1))
__CPROVER_ensures(sq_thrown==0 && gk<comp_n ==> SQ_SAME(self->components[gk], comp_d[gk]))
{
//@BODY file=src/SUNalg.cpp sig=/SU_vector::SU_vector\s*\(\s*const\s+std::vector<double>&\s*comp\s*\)/ part=all rules=common,suv_method
//@SUB /sqrt\s*\(\s*comp\.size\(\)\s*\)/sq_isqrt(comp_n)/ min=1
//@SUB /comp\.size\(\)/comp_n/ min=0
//@SUB /std::copy\(\s*comp\.begin\(\)\s*,\s*comp\.end\(\)\s*,\s*components\s*\)/sq_copyn(comp_d,comp_n,components)/ min=1
}

/* GetComponents(): the component list of the vector, exactly (C01: list -> vector -> list is the identity together with su_ctor_list's value postcondition) */
#undef SQ_RET
#define SQ_RET
void su_GetComponents(const struct SU_vector* self, double* x)
__CPROVER_requires(__CPROVER_r_ok(self, sizeof(*self)) && SU_VALID(self) && 2<=self->dim && (self->isinit||self->isinit_d) && self->components!=NULL)
__CPROVER_requires(__CPROVER_is_fresh(x, self->dim*self->dim*sizeof(double)))            /* std::vector<double> x(dim*dim): fresh storage of dim*dim numbers */
__CPROVER_assigns(__CPROVER_object_whole(x))
__CPROVER_ensures(gk<self->dim*self->dim ==> SQ_SAME(x[gk], self->components[gk]))
{
//@BODY file=src/SUNalg.cpp sig=/std::vector<double>\s+SU_vector::GetComponents\s*\(\s*\)\s*const/ rules=common,suv_method
//@SUB /std::vector<double>\s+x\s*\(\s*dim\s*\*\s*dim\s*\)\s*;// min=1
//@SUB /return\s+x\s*;/return;/ min=1
//@LOOP 0 __CPROVER_assigns(i, __CPROVER_object_whole(x)) __CPROVER_loop_invariant(i<=self->dim*self->dim && (gk<i ==> SQ_SAME(x[gk], self->components[gk]))) __CPROVER_decreases(self->dim*self->dim-i)
}
/* ---- destructor, SetBackingStore -------------------------------------------------------------------- */
void su_dtor(struct SU_vector* self)
SU_DTOR_CONTRACT
{
//@BODY file=include/SQuIDS/SUNalg.h sig=/~SU_vector\s*\(\s*\)/ rules=common,suv_method
}

void su_SetBackingStore(struct SU_vector* self, double* storage)
__CPROVER_requires(__CPROVER_rw_ok(self, sizeof(*self)) && SU_VALID(self) && SQ_LEDGER_OK && (self->isinit ==> sq_live>0))
__CPROVER_assigns(*self, sq_live)
__CPROVER_frees(self->components)
__CPROVER_ensures(self->components==storage && !self->isinit && self->isinit_d && self->dim==__CPROVER_old(self->dim) && self->size==__CPROVER_old(self->size))
__CPROVER_ensures(sq_live==__CPROVER_old(sq_live)-(__CPROVER_old(self->isinit)?1:0))
{
//@BODY file=include/SQuIDS/SUNalg.h sig=/void\s+SetBackingStore\s*\(/ rules=common,suv_method
}

/* ---- assignment -------------------------------------------------------------------------------------- */
/* SU_vector& operator=(const SU_vector& other) */
void su_assign_copy(struct SU_vector* self, const struct SU_vector* other)
SU_ASSIGN_COPY_CONTRACT
/* in addition, checked where the function is enforced: */
__CPROVER_ensures(sq_thrown==0 ==> (SU_VALID(self) && SU_VALID(other) && self->dim==other->dim && self->size==other->size))   /* C08 */
__CPROVER_ensures(sq_thrown==2 ==> SU_VALID(self))   /* C16 C15: after std::bad_alloc the target is still a valid vector; no block is leaked or left both released and owned */
__CPROVER_ensures(sq_thrown==0 && self!=other && self->isinit ==> !__CPROVER_same_object(self->components, other->components))   /* C08: copies are independent */
{
//@BODY file=src/SUNalg.cpp sig=/SU_vector&\s*SU_vector::operator=\s*\(\s*const\s+SU_vector&\s*other\s*\)/ rules=common,suv_method
}

/* SU_vector& operator=(SU_vector&& other) */
void su_assign_move(struct SU_vector* self, struct SU_vector* other)
__CPROVER_requires(__CPROVER_rw_ok(self, sizeof(*self)) && __CPROVER_rw_ok(other, sizeof(*other)) && SU_VALID(self) && SU_VALID(other) && sq_thrown==0)
__CPROVER_assigns(*self, *other, sq_thrown, __CPROVER_object_upto(self->components, self->size*sizeof(double)))
__CPROVER_ensures(sq_thrown==0 || sq_thrown==1)
__CPROVER_ensures((sq_thrown==1) == (self!=other && !__CPROVER_old(self->isinit) && __CPROVER_old(self->isinit_d) && __CPROVER_old(self->size)!=__CPROVER_old(other->size)))
__CPROVER_ensures(sq_thrown==1 ==> (self->dim==__CPROVER_old(self->dim) && self->components==__CPROVER_old(self->components) && self->isinit_d
                   && other->dim==__CPROVER_old(other->dim) && other->components==__CPROVER_old(other->components) && other->isinit==__CPROVER_old(other->isinit) && other->isinit_d==__CPROVER_old(other->isinit_d)))
__CPROVER_ensures(sq_thrown==0 ==> (SU_VALID(self) && SU_VALID(other) && self->dim==__CPROVER_old(other->dim) && self->size==__CPROVER_old(other->size)))
__CPROVER_ensures(sq_thrown==0 && self!=other ==> !(self->isinit && other->isinit && __CPROVER_same_object(self->components, other->components)))
__CPROVER_ensures(__CPROVER_old(self->isinit_d) && !__CPROVER_old(self->isinit) ==> (self->isinit_d && self->components==__CPROVER_old(self->components)))
{
//@BODY file=src/SUNalg.cpp sig=/SU_vector&\s*SU_vector::operator=\s*\(\s*SU_vector&&\s*other\s*\)/ rules=common,suv_method
}

/* ---- compound assignment, comparison ------------------------------------------------------------------ */
#define COMPOUND_CONTRACT \
__CPROVER_requires(__CPROVER_r_ok(self, sizeof(*self)) && __CPROVER_r_ok(other, sizeof(*other)) && SU_VALID(self) && SU_VALID(other) && sq_thrown==0) \
__CPROVER_requires((self->size==other->size && self->size>0) ==> (self->components!=NULL && other->components!=NULL)) \
__CPROVER_assigns(sq_thrown, __CPROVER_object_upto(self->components, self->size*sizeof(double))) \
__CPROVER_ensures((sq_thrown==1) == (self->size!=other->size))             /* C14: mismatched dimensions are rejected before any write */ \
__CPROVER_ensures(sq_thrown==0 || sq_thrown==1)
void su_pluseq(struct SU_vector* self, const struct SU_vector* other)
COMPOUND_CONTRACT
{
//@BODY file=src/SUNalg.cpp sig=/SU_vector&\s*SU_vector::operator\s*\+=\s*\(/ rules=common,suv_method
//@LOOP 0 __CPROVER_assigns(i, __CPROVER_object_upto(self->components, self->size*sizeof(double))) __CPROVER_loop_invariant(i<=self->size) __CPROVER_decreases(self->size-i)
}
void su_minuseq(struct SU_vector* self, const struct SU_vector* other)
COMPOUND_CONTRACT
{
//@BODY file=src/SUNalg.cpp sig=/SU_vector&\s*SU_vector::operator\s*-=\s*\(/ rules=common,suv_method
//@LOOP 0 __CPROVER_assigns(i, __CPROVER_object_upto(self->components, self->size*sizeof(double))) __CPROVER_loop_invariant(i<=self->size) __CPROVER_decreases(self->size-i)
}
#undef SQ_RET
#define SQ_RET 0
bool su_eq(const struct SU_vector* self, const struct SU_vector* other)
__CPROVER_requires(__CPROVER_r_ok(self, sizeof(*self)) && __CPROVER_r_ok(other, sizeof(*other)) && SU_VALID(self) && SU_VALID(other))
__CPROVER_requires((self->isinit||self->isinit_d) ==> self->components!=NULL)
__CPROVER_requires((other->isinit||other->isinit_d) ==> other->components!=NULL)
__CPROVER_assigns(g_eq_wit)
/* two non-empty vectors are equal iff same dimension and equal components; empty vs non-empty unequal; both empty equal */
__CPROVER_ensures(__CPROVER_return_value ==> (self->dim==other->dim && ((self->isinit||self->isinit_d)==(other->isinit||other->isinit_d))))
__CPROVER_ensures(__CPROVER_return_value && (self->isinit||self->isinit_d) && gk<self->size ==> self->components[gk]==other->components[gk])
__CPROVER_ensures(!__CPROVER_return_value && self->dim==other->dim && (self->isinit||self->isinit_d) && (other->isinit||other->isinit_d)
                   ==> (g_eq_wit<self->size && self->components[g_eq_wit]!=other->components[g_eq_wit]))
__CPROVER_ensures(!__CPROVER_return_value && self->dim==other->dim ==> ((self->isinit||self->isinit_d) || (other->isinit||other->isinit_d)))
{
  g_eq_wit=0;
//@BODY file=src/SUNalg.cpp sig=/bool\s+SU_vector::operator==\s*\(/ rules=common,suv_method
//@SUB /return\s+false\s*;\s*\}\s*return\s+true\s*;/{ g_eq_wit=i; return false; } } return true;/ min=1
//@LOOP 0 __CPROVER_assigns(i) __CPROVER_loop_invariant(i<=self->size && (gk<i ==> self->components[gk]==other->components[gk])) __CPROVER_decreases(self->size-i)
}
#undef SQ_RET
#define SQ_RET

/* ---- harnesses ---------------------------------------------------------------------------------------- */
static void h_init(void){ sq_thrown=0; sq_live=nondet_int(); __CPROVER_assume(sq_live>=0 && sq_live<800); sq_alloc_budget=nondet_int(); __CPROVER_assume(sq_alloc_budget>=-1 && sq_alloc_budget<4); }
static void mk(struct SU_vector* v){ int k=nondet_int(); unsigned d=nondet_unsigned(); __CPROVER_assume(k>=0 && k<=2); sq_mk_valid(v,k,d); }
/* two operands in one of the alias patterns: 0 disjoint, 1 same object (caller passes &a twice), 2 both external on one buffer */
static int mk2(struct SU_vector* a, struct SU_vector* b){
  int al=nondet_int(); __CPROVER_assume(al>=0 && al<=2);
  mk(a);
  if(al==1) return 1;
  mk(b);
  if(al==2){ __CPROVER_assume(a->isinit_d && b->isinit_d && a->dim==b->dim); b->components=a->components; }
  return al;
}
double snap_a[SQUIDS_MAX_HILBERT_SIZE], snap_b[SQUIDS_MAX_HILBERT_SIZE];
static double rd(const struct SU_vector* v, unsigned k){ return (v->components!=NULL && k<v->size) ? v->components[k] : 0.0; }

void h_ctor_default(void){ struct SU_vector r; su_ctor_default(&r); __CPROVER_assert(0,"REACH end of harness"); }
void h_ctor_copy(void){ struct SU_vector r, v; h_init(); mk(&v); double o=rd(&v,gk); struct SU_vector v0=v;
  su_ctor_copy(&r,&v);
  __CPROVER_assert(v.dim==v0.dim && v.size==v0.size && v.components==v0.components && v.isinit==v0.isinit && v.isinit_d==v0.isinit_d && SQ_SAME(rd(&v,gk),o), "source of a copy is unchanged");
  if(sq_thrown==0 && r.isinit && gk<r.size){ r.components[gk]=r.components[gk]+1.0; __CPROVER_assert(SQ_SAME(rd(&v,gk),o), "writing to the copy does not affect the source"); }
  __CPROVER_assert(0,"REACH end of harness"); }
void h_ctor_move(void){ struct SU_vector r, v; h_init(); mk(&v); double o=rd(&v,gk); unsigned n=v.size;
  su_ctor_move(&r,&v);
  __CPROVER_assert(gk>=n || SQ_SAME(rd(&r,gk),o), "destination of a move holds the source's value");
  __CPROVER_assert(0,"REACH end of harness"); }
void h_ctor_ext(void){ struct SU_vector r; unsigned d; double* buf; sq_thrown=0; su_ctor_ext(&r,d,buf); __CPROVER_assert(0,"REACH end of harness"); }
void h_ctor_sized(void){ struct SU_vector r; unsigned d; h_init(); su_ctor_sized(&r,d); __CPROVER_assert(0,"REACH end of harness"); }
void h_ctor_list(void){ struct SU_vector r;
#ifdef LIST_N
  size_t n=LIST_N;   /* one job per list length 0..64 (a symbolic length makes CBMC's byte-level havoc of the copy run out of memory) */
#else
  size_t n=nondet_size_t(); __CPROVER_assume(n<=64);
#endif
  double* c=malloc(64*sizeof(double)); __CPROVER_assume(c!=NULL); h_init();
  su_ctor_list(&r,c,n); __CPROVER_assert(0,"REACH end of harness"); }
void h_GetComponents(void){ struct SU_vector v; double* x; h_init(); mk(&v); __CPROVER_assume(v.dim>=2 && (v.isinit||v.isinit_d) && v.components!=NULL); su_GetComponents(&v,x); __CPROVER_assert(0,"REACH end of harness"); }
void h_dtor(void){ struct SU_vector v; h_init(); mk(&v); su_dtor(&v); __CPROVER_assert(0,"REACH end of harness"); }
void h_SetBackingStore(void){ struct SU_vector v; double* s; h_init(); mk(&v); su_SetBackingStore(&v,s); __CPROVER_assert(0,"REACH end of harness"); }
void h_assign_copy(void){ struct SU_vector a,b; h_init(); int al=mk2(&a,&b); struct SU_vector* pb=(al==1)?&a:&b;
  double ob=rd(pb,gk), oa=rd(&a,gk); struct SU_vector b0=*pb, a0=a;
  su_assign_copy(&a,pb);
  __CPROVER_assert(al==1 || (pb->dim==b0.dim && pb->size==b0.size && pb->components==b0.components && pb->isinit==b0.isinit && pb->isinit_d==b0.isinit_d), "source of a copy assignment is unchanged");
  __CPROVER_assert(sq_thrown!=0 || al==2 || gk>=b0.size || SQ_SAME(rd(pb,gk),ob), "source components unchanged");
  __CPROVER_assert(sq_thrown!=0 || gk>=b0.size || SQ_SAME(rd(&a,gk),ob), "target holds the source's value");
  __CPROVER_assert(sq_thrown!=1 || SQ_SAME(rd(&a,gk),oa), "rejected assignment leaves the target's components");
  __CPROVER_assert(0,"REACH end of harness"); }
void h_assign_move(void){ struct SU_vector a,b; h_init(); int al=mk2(&a,&b); struct SU_vector* pb=(al==1)?&a:&b;
  double ob=rd(pb,gk), oa=rd(&a,gk); unsigned nb=pb->size;
  su_assign_move(&a,pb);
  __CPROVER_assert(sq_thrown!=0 || gk>=nb || SQ_SAME(rd(&a,gk),ob), "target of a move assignment holds the source's value");
  __CPROVER_assert(sq_thrown!=1 || (SQ_SAME(rd(&a,gk),oa) && SQ_SAME(rd(pb,gk),ob)), "rejected move assignment modifies nothing");
  __CPROVER_assert(0,"REACH end of harness"); }
void h_pluseq(void){ struct SU_vector a,b; h_init(); int al=mk2(&a,&b); struct SU_vector* pb=(al==1)?&a:&b; double oa=rd(&a,gk);
  __CPROVER_assume(!(a.size==pb->size && a.size>0) || (a.components!=NULL && pb->components!=NULL));
  su_pluseq(&a,pb); __CPROVER_assert(sq_thrown!=1 || SQ_SAME(rd(&a,gk),oa), "rejected += modifies nothing"); __CPROVER_assert(0,"REACH end of harness"); }
void h_minuseq(void){ struct SU_vector a,b; h_init(); int al=mk2(&a,&b); struct SU_vector* pb=(al==1)?&a:&b; double oa=rd(&a,gk);
  __CPROVER_assume(!(a.size==pb->size && a.size>0) || (a.components!=NULL && pb->components!=NULL));
  su_minuseq(&a,pb); __CPROVER_assert(sq_thrown!=1 || SQ_SAME(rd(&a,gk),oa), "rejected -= modifies nothing"); __CPROVER_assert(0,"REACH end of harness"); }
void h_eq(void){ struct SU_vector a,b; h_init(); int al=mk2(&a,&b); struct SU_vector* pb=(al==1)?&a:&b;
  __CPROVER_assume(!(a.isinit||a.isinit_d) || a.components!=NULL); __CPROVER_assume(!(pb->isinit||pb->isinit_d) || pb->components!=NULL);
  su_eq(&a,pb); __CPROVER_assert(0,"REACH end of harness"); }
